//go:build verif

package weshnet

// Second driver for C06 (specs/HandshakeContact.tla): the responder side is not the bare
// handshake but contactRequestsManager.handleIncomingRequest of a real protocol service (mocked
// IPFS, in-memory datastore), fed through a fake libp2p stream whose blocking state the driver
// observes.  The concrete intruder is the one of harness/internal/handshake (this file is derived
// from it: same wire format, same term-to-bytes mapping); honest requesters are real
// handshake.RequestUsingReaderWriter calls with fresh account keys.  After a handshake the
// intruder sends the contact announcement the script names.  Observed per run: what every
// endpoint returned and for which contact keys the account group now holds an incoming request
// (= an AccountContactRequestIncomingReceived event was appended).

import (
	"bufio"
	"bytes"
	"context"
	"crypto/sha256"
	"encoding/binary"
	"encoding/hex"
	"encoding/json"
	"fmt"
	"io"
	"math/big"
	"math/rand"
	"os"
	"strconv"
	"strings"
	"sync"
	"testing"

	p2pcrypto "github.com/libp2p/go-libp2p/core/crypto"
	"github.com/libp2p/go-libp2p/core/network"
	mocknet "github.com/libp2p/go-libp2p/p2p/net/mock"
	"go.uber.org/zap"
	"golang.org/x/crypto/curve25519"
	"golang.org/x/crypto/nacl/box"
	"google.golang.org/protobuf/proto"

	"berty.tech/weshnet/v2/internal/handshake"
	"berty.tech/weshnet/v2/pkg/cryptoutil"
	"berty.tech/weshnet/v2/pkg/errcode"
	"berty.tech/weshnet/v2/pkg/protocoltypes"
	"berty.tech/weshnet/v2/pkg/protoio"
	"berty.tech/weshnet/v2/pkg/tinder"
)

// the one real service whose handleIncomingRequest plays every responder (account B)
type vfcWorld struct {
	svc *service
	mgr *contactRequestsManager
	ctx context.Context
}

var (
	vfcW        *vfcWorld
	vfcAppMu    sync.Mutex
	vfcAppended int
)

// vfcStream is what handleIncomingRequest gets as its libp2p stream: it only reads and writes
type vfcStream struct {
	network.Stream
	c *vfcConn
}

func (s vfcStream) Read(p []byte) (int, error)  { return s.c.Read(p) }
func (s vfcStream) Write(p []byte) (int, error) { return s.c.Write(p) }

// ---------------------------------------------------------------------------------- scripts

type vfcSessCfg struct {
	Role   string `json:"role"`
	Owner  string `json:"owner"`
	Target string `json:"target"`
}

type vfcStep struct {
	Act  string `json:"act"`
	S    int    `json:"s"`
	X    string `json:"x"`
	Src  int    `json:"src"`
	Acct string `json:"acct"`
	Pfk  string `json:"pfk"`
	Pfj  int    `json:"pfj"`
	C    bool   `json:"c"`
}

type vfcCfg struct {
	Sess  []vfcSessCfg `json:"sess"`
	Low   []int        `json:"low"`   // indices into vfcLowPoints to use for the abstract "low"
	FT    []string     `json:"ft"`    // key types to use for the abstract foreign identity F
	Mut   string       `json:"mut"`   // corruption of a c=TRUE step: "all" | "sample:<k>" | "one:<idx>"
	Steps bool         `json:"steps"` // also record one event per step (first variant only)
	// record the steps of every concretisation the model describes
	StepsAll bool `json:"stepsall"`
}

type vfcScript struct {
	ID    int       `json:"id"`
	Cfg   vfcCfg    `json:"cfg"`
	Steps []vfcStep `json:"steps"`
}

func vfcLoadScripts(t testing.TB) []vfcScript {
	p := os.Getenv("VERIF_SCRIPTS")
	if p == "" {
		t.Skip("VERIF_SCRIPTS not set")
	}
	f, err := os.Open(p)
	if err != nil {
		t.Fatalf("VERIF-INFRA cannot open scripts: %v", err)
	}
	defer f.Close()
	var out []vfcScript
	sc := bufio.NewScanner(f)
	sc.Buffer(make([]byte, 1<<20), 1<<28)
	for sc.Scan() {
		if len(sc.Bytes()) == 0 {
			continue
		}
		var s vfcScript
		if err := json.Unmarshal(sc.Bytes(), &s); err != nil {
			t.Fatalf("VERIF-INFRA bad script line: %v", err)
		}
		out = append(out, s)
	}
	return out
}

// --------------------------------------------------------------------- degenerate encodings

var (
	vfcP, _   = new(big.Int).SetString("57896044618658097711785492504343953926634992332820282019728792003956564819949", 10)
	vfcO8a, _ = new(big.Int).SetString("325606250916557431795983626356110631294008115727848805560023387167927233504", 10)
	vfcO8b, _ = new(big.Int).SetString("39382357235489614581723060781553021112529911719440698176882885853963445705823", 10)
)

func vfcLE(v *big.Int) [32]byte {
	var out [32]byte
	b := v.Bytes() // big endian
	if len(b) > 32 {
		vfInfra("value does not fit 32 bytes")
	}
	for i := range b {
		out[len(b)-1-i] = b[i]
	}
	return out
}

type vfcLow struct {
	name string
	enc  [32]byte
	zero bool // X25519(k, enc) is the all-zero value in the implementation under test's library
}

// the twelve values of https://cr.yp.to/ecdh.html#validate (as 256-bit little-endian strings)
// followed by the seven canonical small-order values with bit 255 set
var vfcLowPoints = func() []vfcLow {
	add := func(a, b *big.Int) *big.Int { return new(big.Int).Add(a, b) }
	one := big.NewInt(1)
	p2 := add(vfcP, vfcP)
	vals := []struct {
		n string
		v *big.Int
	}{
		{"0", big.NewInt(0)}, {"1", one}, {"o8a", vfcO8a}, {"o8b", vfcO8b},
		{"p-1", new(big.Int).Sub(vfcP, one)}, {"p", vfcP}, {"p+1", add(vfcP, one)},
		{"p+o8a", add(vfcP, vfcO8a)}, {"p+o8b", add(vfcP, vfcO8b)},
		{"2p-1", new(big.Int).Sub(p2, one)}, {"2p", p2}, {"2p+1", add(p2, one)},
	}
	var out []vfcLow
	for _, v := range vals {
		out = append(out, vfcLow{name: v.n, enc: vfcLE(v.v)})
	}
	for _, v := range vals[:7] {
		e := vfcLE(v.v)
		e[31] |= 0x80
		out = append(out, vfcLow{name: v.n + "|msb", enc: e})
	}
	sc := [32]byte{7: 0x55, 20: 0x17}
	sc[0] &= 248
	sc[31] = (sc[31] & 127) | 64
	for i := range out {
		var dst [32]byte
		e := out[i].enc
		curve25519.ScalarMult(&dst, &sc, &e) //nolint
		out[i].zero = dst == [32]byte{}
	}
	return out
}()

// canonical form of an X25519 u-coordinate as the function sees it: bit 255 masked, reduced mod p
func vfcCanon(b []byte) string {
	if len(b) != 32 {
		return "len" + strconv.Itoa(len(b)) + ":" + hex.EncodeToString(b)
	}
	be := make([]byte, 32)
	for i := range b {
		be[31-i] = b[i]
	}
	be[0] &= 0x7f
	v := new(big.Int).SetBytes(be)
	v.Mod(v, vfcP)
	return v.Text(16)
}

func vfcDegenerate(b []byte) bool {
	if len(b) != 32 {
		return false
	}
	var dst, pt [32]byte
	copy(pt[:], b)
	sc := [32]byte{3: 0x99, 9: 0x21}
	sc[0] &= 248
	sc[31] = (sc[31] & 127) | 64
	curve25519.ScalarMult(&dst, &sc, &pt) //nolint
	return dst == [32]byte{}
}

// ------------------------------------------------------------------------------ connections

// vfcConn is the byte stream between the driver (network) and one honest session.  The
// driver can tell when the session is blocked reading on an empty stream.
type vfcConn struct {
	mu       sync.Mutex
	cond     *sync.Cond
	in       []byte
	inClosed bool
	waiting  bool
	out      []byte
	done     bool
	key      p2pcrypto.PubKey
	err      error
	panicked any
}

func vfcNewConn() *vfcConn {
	c := &vfcConn{}
	c.cond = sync.NewCond(&c.mu)
	return c
}

func (c *vfcConn) Read(p []byte) (int, error) {
	c.mu.Lock()
	defer c.mu.Unlock()
	for len(c.in) == 0 && !c.inClosed {
		c.waiting = true
		c.cond.Broadcast()
		c.cond.Wait()
	}
	c.waiting = false
	if len(c.in) == 0 {
		return 0, io.EOF
	}
	n := copy(p, c.in)
	c.in = c.in[n:]
	return n, nil
}

func (c *vfcConn) Write(p []byte) (int, error) {
	c.mu.Lock()
	defer c.mu.Unlock()
	c.out = append(c.out, p...)
	return len(p), nil
}

func (c *vfcConn) deliver(b []byte) {
	c.mu.Lock()
	c.in = append(c.in, b...)
	c.cond.Broadcast()
	c.mu.Unlock()
}

func (c *vfcConn) closeIn() {
	c.mu.Lock()
	c.inClosed = true
	c.cond.Broadcast()
	c.mu.Unlock()
}

// settle blocks until the session has returned or is blocked reading with nothing left to read
func (c *vfcConn) settle() {
	c.mu.Lock()
	for !(c.done || (c.waiting && len(c.in) == 0 && !c.inClosed)) {
		c.cond.Wait()
	}
	c.mu.Unlock()
}

func (c *vfcConn) finish(k p2pcrypto.PubKey, err error, pn any) {
	c.mu.Lock()
	c.done, c.key, c.err, c.panicked = true, k, err, pn
	c.cond.Broadcast()
	c.mu.Unlock()
}

// takeFrames removes the complete frames the session wrote so far (raw bytes, prefix included)
func (c *vfcConn) takeFrames() [][]byte {
	c.mu.Lock()
	defer c.mu.Unlock()
	var frames [][]byte
	for len(c.out) > 0 {
		l, n := binary.Uvarint(c.out)
		if n <= 0 || len(c.out) < n+int(l) {
			break
		}
		frames = append(frames, append([]byte(nil), c.out[:n+int(l)]...))
		c.out = c.out[n+int(l):]
	}
	return frames
}

// --------------------------------------------------------------------------------- the world

type vfcKeys struct {
	priv map[string]p2pcrypto.PrivKey // A, B, E, W (+ F per type)
	pub  map[string]p2pcrypto.PubKey
}

var (
	vfcForeignOnce sync.Once
	vfcForeign     map[string]p2pcrypto.PrivKey
)

func vfcForeignKeys() map[string]p2pcrypto.PrivKey {
	vfcForeignOnce.Do(func() {
		r := vfRand(424242)
		vfcForeign = map[string]p2pcrypto.PrivKey{}
		k, _, err := p2pcrypto.GenerateRSAKeyPair(2048, r)
		if err != nil {
			vfInfra("rsa: %v", err)
		}
		vfcForeign["rsa"] = k
		k, _, err = p2pcrypto.GenerateSecp256k1Key(r)
		if err != nil {
			vfInfra("secp256k1: %v", err)
		}
		vfcForeign["secp256k1"] = k
		k, _, err = p2pcrypto.GenerateECDSAKeyPair(r)
		if err != nil {
			vfInfra("ecdsa: %v", err)
		}
		vfcForeign["ecdsa"] = k
	})
	return vfcForeign
}

type vfcSession struct {
	i       int
	cfg     vfcSessCfg
	conn    *vfcConn
	frames  [][]byte // frames written by the session, in order
	in      []string // provenance of the frames delivered to it
	ownEph  []byte
	peerEph []byte // ephemeral bytes delivered to it (as the code reads them), nil if none
	claimed string // account named in the last step-3 box delivered to it
	closed  bool
}

type vfcRun struct {
	sc     *vfcScript
	lowIdx int
	ft     string
	mutIdx int // -1: none
	rnd    *rand.Rand
	keys   vfcKeys
	// intruder-private material
	eiPub, eiPriv *[32]byte
	sess          []*vfcSession
	nmut          int
	mutDesc       string
	obs           []string
	auto          []map[string]any // deliveries the intruder added on its own at the end (see finish)
}

func vfcMust(err error, what string) {
	if err != nil {
		vfInfra("%s: %v", what, err)
	}
}

func (r *vfcRun) start() {
	r.keys = vfcKeys{priv: map[string]p2pcrypto.PrivKey{}, pub: map[string]p2pcrypto.PubKey{}}
	for _, n := range []string{"A", "E", "W"} {
		k, pk, err := p2pcrypto.GenerateEd25519Key(r.rnd)
		vfcMust(err, "keygen")
		r.keys.priv[n], r.keys.pub[n] = k, pk
	}
	// B is the account of the real service: the driver never touches its private key
	r.keys.pub["B"] = vfcW.mgr.accountPrivateKey.GetPublic()
	if r.ft != "" {
		if r.ft == "edsmall" {
			// the Ed25519 identity point: a key without a private half (see vfcSign)
			pk, err := p2pcrypto.UnmarshalEd25519PublicKey(append([]byte{1}, make([]byte, 31)...))
			vfcMust(err, "identity key")
			r.keys.pub["F"] = pk
		} else {
			k := vfcForeignKeys()[r.ft]
			if k == nil {
				vfInfra("unknown foreign key type %q", r.ft)
			}
			r.keys.priv["F"], r.keys.pub["F"] = k, k.GetPublic()
		}
	}
	var err error
	r.eiPub, r.eiPriv, err = box.GenerateKey(r.rnd)
	vfcMust(err, "intruder ephemeral")
	for i, c := range r.sc.Cfg.Sess {
		s := &vfcSession{i: i + 1, cfg: c}
		r.sess = append(r.sess, s)
		if c.Role == "none" {
			continue
		}
		s.conn = vfcNewConn()
		conn := s.conn
		if c.Role == "req" {
			if c.Owner != "A" {
				vfInfra("this driver only has honest requesters of account A")
			}
			own := r.keys.priv["A"]
			target := r.keys.pub[c.Target]
			reader := protoio.NewDelimitedReader(conn, 2048)
			writer := protoio.NewDelimitedWriter(conn)
			go func() {
				defer func() {
					if p := recover(); p != nil {
						conn.finish(nil, fmt.Errorf("panic"), p)
					}
				}()
				err := handshake.RequestUsingReaderWriter(context.Background(), zap.NewNop(), reader, writer, own, target)
				conn.finish(nil, err, nil)
			}()
		} else {
			if c.Owner != "B" {
				vfInfra("this driver only has the service account B as responder")
			}
			go func() {
				defer func() {
					if p := recover(); p != nil {
						conn.finish(nil, fmt.Errorf("panic"), p)
					}
				}()
				err := vfcW.mgr.handleIncomingRequest(vfcW.ctx, vfcStream{c: conn})
				conn.finish(nil, err, nil)
			}()
		}
	}
	for _, s := range r.sess {
		if s.conn != nil {
			s.conn.settle()
		}
	}
}

// collect moves the frames a session wrote into its record; the first one carries its ephemeral
func (r *vfcRun) collect(s *vfcSession) int {
	fr := s.conn.takeFrames()
	for _, f := range fr {
		if len(s.frames) == 0 {
			var h handshake.HelloPayload
			_, n := binary.Uvarint(f)
			if err := proto.Unmarshal(f[n:], &h); err != nil || len(h.EphemeralPubKey) != 32 {
				vfInfra("session %d: first frame is not a hello", s.i)
			}
			s.ownEph = h.EphemeralPubKey
		}
		s.frames = append(s.frames, f)
	}
	return len(fr)
}

func vfcFrame(m proto.Message) []byte {
	b, err := proto.Marshal(m)
	vfcMust(err, "marshal")
	return append(binary.AppendUvarint(nil, uint64(len(b))), b...)
}

// ---------------------------------------------------------------------------- the intruder

func (r *vfcRun) ephBytes(x string) []byte {
	switch x {
	case "ei":
		return r.eiPub[:]
	case "low":
		e := vfcLowPoints[r.lowIdx].enc
		return e[:]
	case "e1", "e2", "e3":
		s := r.sess[int(x[1]-'1')]
		if s.ownEph == nil {
			// the real session never put its ephemeral on the wire (it returned earlier than the
			// model expects): nothing to replay
			r.obs = append(r.obs, "nothing-to-replay")
			return nil
		}
		return s.ownEph
	}
	vfInfra("unknown ephemeral %q", x)
	return nil
}

// dh is what the intruder can compute for X25519(peer, .) given which ephemeral it planted
// in the session: with "ei" it uses its private key, with "low" any scalar gives the constant
func (r *vfcRun) dhWithPlanted(s *vfcSession, other *[32]byte, planted string) *[32]byte {
	var k [32]byte
	switch planted {
	case "ei":
		box.Precompute(&k, other, r.eiPriv)
	case "low":
		e := vfcLowPoints[r.lowIdx].enc
		box.Precompute(&k, &e, r.eiPriv)
	default:
		vfInfra("intruder cannot compute a secret with ephemeral %q", planted)
	}
	return &k
}

func vfcArr(b []byte) *[32]byte {
	var a [32]byte
	copy(a[:], b)
	return &a
}

func vfcHash(a, b *[32]byte) *[32]byte {
	h := sha256.Sum256(append(append([]byte{}, a[:]...), b[:]...))
	return &h
}

// planted tells which intruder-computable ephemeral session s currently holds as its peer's
func (r *vfcRun) planted(s *vfcSession) string {
	if s.peerEph == nil {
		vfInfra("session %d has no peer ephemeral", s.i)
	}
	if bytes.Equal(s.peerEph, r.eiPub[:]) {
		return "ei"
	}
	e := vfcLowPoints[r.lowIdx].enc
	if bytes.Equal(s.peerEph, e[:]) {
		return "low"
	}
	vfInfra("session %d: peer ephemeral is not intruder-computable", s.i)
	return ""
}

func (r *vfcRun) montPub(name string) *[32]byte {
	k, err := cryptoutil.EdwardsToMontgomeryPub(r.keys.pub[name])
	vfcMust(err, "montgomery pub")
	return k
}

func (r *vfcRun) montPrivE() *[32]byte {
	k, err := cryptoutil.EdwardsToMontgomeryPriv(r.keys.priv["E"])
	vfcMust(err, "montgomery priv")
	return k
}

// key of the step-3 box of/for session s: H(a.b | a.B)
//   - s responder (owner O): the intruder planted the requester ephemeral, a.B = X(planted, O)
//   - s requester (target E): a.b via the planted responder ephemeral, a.B = X(E, a)
func (r *vfcRun) key3(s *vfcSession) *[32]byte {
	pl := r.planted(s)
	sh := r.dhWithPlanted(s, vfcArr(s.ownEph), pl)
	var ea *[32]byte
	if s.cfg.Role == "rsp" {
		ea = r.dhWithPlanted(s, r.montPub(s.cfg.Owner), pl)
	} else {
		if s.cfg.Target != "E" {
			vfInfra("intruder cannot open a step-3 box addressed to %s", s.cfg.Target)
		}
		var k [32]byte
		box.Precompute(&k, vfcArr(s.ownEph), r.montPrivE())
		ea = &k
	}
	return vfcHash(sh, ea)
}

// key of the step-4 box of/for session s: H(a.b | A.B), computable when one side is E
func (r *vfcRun) key4(s *vfcSession, other string) *[32]byte {
	pl := r.planted(s)
	sh := r.dhWithPlanted(s, vfcArr(s.ownEph), pl)
	var k [32]byte
	box.Precompute(&k, r.montPub(other), r.montPrivE())
	return vfcHash(sh, &k)
}

func (r *vfcRun) shared(s *vfcSession) *[32]byte {
	return r.dhWithPlanted(s, vfcArr(s.ownEph), r.planted(s))
}

func vfcBody(frame []byte) []byte {
	_, n := binary.Uvarint(frame)
	return frame[n:]
}

// proof returns the signature the script asks for: the intruder's own over the shared secret
// of the attacked session, or one it extracts from a recorded box it can open
func (r *vfcRun) proof(st vfcStep, signer string, tgt *vfcSession) []byte {
	switch st.Pfk {
	case "own":
		if signer == "F" && r.ft == "edsmall" {
			// [S]B = R + [k]A with A the identity: R = [s]B verifies for every message
			return vfcIdentitySig(r.rnd)
		}
		// the intruder signs with a key it owns: F's when it claims F, else E's
		k := r.keys.priv["E"]
		if signer == "F" {
			k = r.keys.priv["F"]
		}
		sig, err := k.Sign(r.shared(tgt)[:])
		vfcMust(err, "sign")
		return sig
	case "x3":
		j := r.sess[st.Pfj-1]
		var env handshake.BoxEnvelope
		if r.recorded(vfcStep{Src: st.Pfj}, 1) == nil {
			return make([]byte, 64)
		}
		vfcMust(proto.Unmarshal(vfcBody(j.frames[1]), &env), "recorded step-3 envelope")
		pt, ok := box.OpenAfterPrecomputation(nil, env.Box, &[24]byte{1}, r.key3(j))
		if !ok {
			r.obs = append(r.obs, "x3-unopenable")
			return make([]byte, 64)
		}
		var pl handshake.RequesterAuthenticatePayload
		vfcMust(proto.Unmarshal(pt, &pl), "recorded step-3 payload")
		return pl.RequesterAccountSig
	case "x4":
		j := r.sess[st.Pfj-1]
		var env handshake.BoxEnvelope
		if r.recorded(vfcStep{Src: st.Pfj}, 1) == nil {
			return make([]byte, 64)
		}
		vfcMust(proto.Unmarshal(vfcBody(j.frames[1]), &env), "recorded step-4 envelope")
		pt, ok := box.OpenAfterPrecomputation(nil, env.Box, &[24]byte{2}, r.key4(j, j.cfg.Owner))
		if !ok {
			r.obs = append(r.obs, "x4-unopenable")
			return make([]byte, 64)
		}
		var pl handshake.ResponderAcceptPayload
		vfcMust(proto.Unmarshal(pt, &pl), "recorded step-4 payload")
		return pl.ResponderAccountSig
	}
	vfInfra("unknown proof source %q", st.Pfk)
	return nil
}

// ----------------------------------------------------------------------- frame corruptions

type vfcMut struct {
	desc string
	f    func() []byte
	eof  bool // close the stream after the bytes
}

// mutations of one frame (uvarint prefix + body); others = recorded frames of another kind
func vfcMutations(frame []byte, others [][]byte, last bool) []vfcMut {
	var out []vfcMut
	n := len(frame)
	for i := 0; i < 8*n; i++ {
		i := i
		out = append(out, vfcMut{desc: fmt.Sprintf("flip:%d", i), f: func() []byte {
			b := append([]byte(nil), frame...)
			b[i/8] ^= 1 << (i % 8)
			return b
		}})
	}
	for t := 0; t < n; t++ {
		t := t
		out = append(out, vfcMut{desc: fmt.Sprintf("trunc:%d", t), eof: true, f: func() []byte { return append([]byte(nil), frame[:t]...) }})
	}
	body := vfcBody(frame)
	pad := func(total int) []byte { // body + an unknown length-delimited field 15 filling up to total bytes
		rest := total - len(body)
		// tag (1 byte) + uvarint length + payload
		for l := rest; l >= 0; l-- {
			hdr := append([]byte{0x7a}, binary.AppendUvarint(nil, uint64(l))...)
			if len(hdr)+l == rest {
				b := append(append(append([]byte(nil), body...), hdr...), make([]byte, l)...)
				return append(binary.AppendUvarint(nil, uint64(len(b))), b...)
			}
		}
		return nil
	}
	sp := []vfcMut{
		{desc: "pad:2048", f: func() []byte { return pad(2048) }},
		{desc: "pad:2049", f: func() []byte { return pad(2049) }},
		{desc: "len:2049+zeros", f: func() []byte {
			return append(binary.AppendUvarint(nil, 2049), make([]byte, 2049)...)
		}},
		{desc: "len:1<<31", eof: true, f: func() []byte { return append(binary.AppendUvarint(nil, 1<<31), body...) }},
		{desc: "len:overflow", eof: true, f: func() []byte { return append(bytes.Repeat([]byte{0xff}, 10), body...) }},
		{desc: "len:1<<63", eof: true, f: func() []byte { return append(binary.AppendUvarint(nil, 1<<63), body...) }},
		{desc: "empty", f: func() []byte { return []byte{0} }},
		{desc: "unknown-field", f: func() []byte {
			b := append(append([]byte(nil), body...), 0x78, 0x01)
			return append(binary.AppendUvarint(nil, uint64(len(b))), b...)
		}},
	}
	if last {
		// bytes after the last frame a role reads are never looked at
		sp = append(sp, vfcMut{desc: "twice", f: func() []byte { return append(append([]byte(nil), frame...), frame...) }})
	}
	out = append(out, sp...)
	for k, o := range others {
		o := o
		out = append(out, vfcMut{desc: fmt.Sprintf("wrongtype:%d", k), f: func() []byte { return append([]byte(nil), o...) }})
	}
	return out
}

// vfcSame: does the corrupted byte string still carry, as one well-formed frame of the
// expected kind, the same content as the original?  (the abstract "c" of the model)
func vfcSame(kind string, orig, mut []byte) bool {
	dec := func(b []byte) (string, bool) {
		l, n := binary.Uvarint(b)
		if n <= 0 || l > 2048 || len(b) < n+int(l) {
			return "", false
		}
		if len(b) > n+int(l) && kind != "accept" && kind != "ack" {
			return "", false // trailing bytes would be read as the next frame
		}
		b = b[:n+int(l)]
		switch kind {
		case "hello":
			var m handshake.HelloPayload
			if proto.Unmarshal(b[n:], &m) != nil {
				return "", false
			}
			return vfcCanon(m.EphemeralPubKey), len(m.EphemeralPubKey) == 32
		case "auth", "accept":
			var m handshake.BoxEnvelope
			if proto.Unmarshal(b[n:], &m) != nil {
				return "", false
			}
			return hex.EncodeToString(m.Box), true
		case "ack":
			var m handshake.RequesterAcknowledgePayload
			if proto.Unmarshal(b[n:], &m) != nil {
				return "", false
			}
			return fmt.Sprint(m.Success), true
		}
		return "", false
	}
	a, ok1 := dec(orig)
	b, ok2 := dec(mut)
	return ok1 && ok2 && a == b
}

func vfcIdentitySig(rnd *rand.Rand) []byte {
	// s = 0: R = identity, S = 0
	sig := make([]byte, 64)
	sig[0] = 1
	return sig
}

// --------------------------------------------------------------------------------- stepping

func (r *vfcRun) nameOfEph(b []byte) string {
	if b == nil {
		return "-"
	}
	c := vfcCanon(b)
	for _, s := range r.sess {
		if s.ownEph != nil && vfcCanon(s.ownEph) == c {
			return "e" + strconv.Itoa(s.i)
		}
	}
	if vfcCanon(r.eiPub[:]) == c {
		return "ei"
	}
	if vfcDegenerate(b) {
		return "low"
	}
	return "x"
}

func (r *vfcRun) nameOfKey(k p2pcrypto.PubKey) string {
	if k == nil {
		return "-"
	}
	for _, n := range []string{"A", "B", "E", "W", "F"} {
		if pk := r.keys.pub[n]; pk != nil && pk.Equals(k) {
			return n
		}
	}
	return "?"
}

func (r *vfcRun) outcome(s *vfcSession, wrote int) (string, string) {
	c := s.conn
	c.mu.Lock()
	defer c.mu.Unlock()
	switch {
	case c.done && c.panicked != nil:
		return "panic", "-"
	case c.done && c.err != nil:
		return "fail", "-"
	case c.done:
		return "done", r.nameOfKey(c.key)
	case wrote > 0:
		return "frame", "-"
	}
	return "wait", "-"
}

// otherKind lists recorded frames that are not of the kind expected by the receiver now
func (r *vfcRun) otherKind(kind string) [][]byte {
	var out [][]byte
	for _, s := range r.sess {
		for k, f := range s.frames {
			fk := "hello"
			switch {
			case k == 1 && s.cfg.Role == "req":
				fk = "auth"
			case k == 1:
				fk = "accept"
			case k == 2:
				fk = "ack"
			}
			if fk != kind {
				out = append(out, f)
			}
		}
	}
	return out
}

// recorded returns frame k of the source session of a replay step.  When the real code did not
// get as far as the model expects (the run is then outside the full specification: a "low"
// encoding that is not degenerate for this X25519 implementation, or an implementation that
// rejects what the model's Impl value accepts) there is nothing to replay: nil.
func (r *vfcRun) recorded(st vfcStep, k int) []byte {
	fr := r.sess[st.Src-1].frames
	if k >= len(fr) {
		r.obs = append(r.obs, "nothing-to-replay")
		return nil
	}
	return fr[k]
}

func (r *vfcRun) step(st vfcStep) map[string]any {
	s := r.sess[st.S-1]
	// skip: the step could not be executed as the model describes it (see recorded)
	ev := map[string]any{"ev": st.Act, "s": st.S, "x": st.X, "src": st.Src, "acct": st.Acct, "pfk": st.Pfk, "pfj": st.Pfj, "c": st.C, "skip": false}
	nobs := len(r.obs)
	defer func() {
		if len(r.obs) > nobs {
			ev["skip"] = true
		}
	}()
	if s.conn == nil {
		vfInfra("step on absent session %d", st.S)
	}
	if st.Act == "start" {
		n := r.collect(s)
		ev["out"], ev["key"] = r.outcome(s, n)
		return ev
	}
	s.conn.mu.Lock()
	gone := s.conn.done
	s.conn.mu.Unlock()
	if gone {
		// the real session already returned (earlier than the model expects): nothing to deliver to
		r.obs = append(r.obs, "session-gone")
		ev["out"], ev["key"] = "gone", "-"
		return ev
	}
	var frame []byte
	prov := "I"
	eof := false
	switch st.Act {
	case "hello":
		eb := r.ephBytes(st.X)
		if eb == nil {
			eof, prov = true, "missing"
		} else if st.Src > 0 {
			frame = r.recorded(st, 0)
			prov = fmt.Sprintf("%d.1", st.Src)
		} else {
			frame = vfcFrame(&handshake.HelloPayload{EphemeralPubKey: eb})
		}
		s.peerEph = eb
	case "auth":
		if st.Src > 0 {
			s.claimed = r.sess[st.Src-1].cfg.Owner
		} else {
			s.claimed = st.Acct
		}
		if st.Src > 0 {
			frame = r.recorded(st, 1)
			prov = fmt.Sprintf("%d.2", st.Src)
		} else {
			pk := r.keys.pub[st.Acct]
			if pk == nil {
				vfInfra("no key for account %q", st.Acct)
			}
			id, err := p2pcrypto.MarshalPublicKey(pk)
			vfcMust(err, "marshal account key")
			pl, err := proto.Marshal(&handshake.RequesterAuthenticatePayload{RequesterAccountId: id, RequesterAccountSig: r.proof(st, st.Acct, s)})
			vfcMust(err, "marshal payload")
			frame = vfcFrame(&handshake.BoxEnvelope{Box: box.SealAfterPrecomputation(nil, pl, &[24]byte{1}, r.key3(s))})
		}
	case "accept":
		if st.Src > 0 {
			frame = r.recorded(st, 1)
			prov = fmt.Sprintf("%d.2", st.Src)
		} else {
			pl, err := proto.Marshal(&handshake.ResponderAcceptPayload{ResponderAccountSig: r.proof(st, "E", s)})
			vfcMust(err, "marshal payload")
			frame = vfcFrame(&handshake.BoxEnvelope{Box: box.SealAfterPrecomputation(nil, pl, &[24]byte{2}, r.key4(s, s.cfg.Owner))})
		}
	case "ack":
		switch {
		case st.Src > 0:
			frame = r.recorded(st, 2)
			prov = fmt.Sprintf("%d.3", st.Src)
		case st.X == "t":
			frame, prov = vfcFrame(&handshake.RequesterAcknowledgePayload{Success: true}), "I:ack+"
		case st.X == "f":
			frame, prov = vfcFrame(&handshake.RequesterAcknowledgePayload{Success: false}), "I:ack-"
		default:
			frame, eof, prov = nil, true, "eof"
		}
	case "contact":
		// the announcement that follows the handshake on the same stream
		sc := &protocoltypes.ShareableContact{PublicRendezvousSeed: make([]byte, protocoltypes.RendezvousSeedLength), Metadata: []byte("vf")}
		r.rnd.Read(sc.PublicRendezvousSeed)
		prov = "I:contact:" + st.X
		switch st.X {
		case "eof":
			frame, eof = nil, true
		case "junk":
			sc.Pk = make([]byte, 31)
			r.rnd.Read(sc.Pk)
			frame = vfcFrame(sc)
		default:
			pk := r.keys.pub[st.X]
			if pk == nil {
				vfInfra("no key for contact %q", st.X)
			}
			raw, err := pk.Raw()
			vfcMust(err, "raw key")
			sc.Pk = raw
			frame = vfcFrame(sc)
		}
	case "drop":
		frame, eof, prov = nil, true, "eof"
	default:
		vfInfra("unknown action %q", st.Act)
	}
	if st.Src > 0 && frame == nil {
		eof, prov = true, "missing"
	}
	if st.C && frame != nil {
		muts := vfcMutations(frame, r.otherKind(st.Act), st.Act == "accept" || st.Act == "ack")
		r.nmut = len(muts)
		if r.mutIdx < 0 || r.mutIdx >= len(muts) {
			vfInfra("mutation index %d out of range %d", r.mutIdx, len(muts))
		}
		m := muts[r.mutIdx]
		mb := m.f()
		r.mutDesc = m.desc
		same := vfcSame(st.Act, frame, mb)
		ev["c"] = !same
		ev["mut"] = m.desc
		prov += "~"
		if st.Act == "hello" {
			// what the code will read as ephemeral, if the bytes still are one well-formed hello
			var h handshake.HelloPayload
			s.peerEph = nil
			if l, n := binary.Uvarint(mb); n > 0 && l <= 2048 && int(l) <= len(mb)-n && proto.Unmarshal(mb[n:n+int(l)], &h) == nil && len(h.EphemeralPubKey) == 32 {
				s.peerEph = h.EphemeralPubKey
				if !same && int(l) == len(mb)-n {
					// a different point: abstractly a hello carrying an ephemeral nobody has the key of
					ev["c"] = false
					switch nm := r.nameOfEph(h.EphemeralPubKey); nm {
					case "x":
						ev["x"] = "ex"
					default:
						ev["x"] = nm
					}
				}
			}
		}
		frame, eof = mb, eof || m.eof
	}
	s.in = append(s.in, prov)
	s.conn.deliver(frame)
	if eof {
		s.conn.closeIn()
		s.closed = true
	}
	s.conn.settle()
	wrote := r.collect(s)
	out, key := r.outcome(s, wrote)
	if out == "wait" && st.C {
		// a corrupted frame that leaves the session waiting for more bytes: the stream ends there
		s.conn.closeIn()
		s.closed = true
		s.conn.settle()
		wrote = r.collect(s)
		out, key = r.outcome(s, wrote)
	}
	ev["out"], ev["key"] = out, key
	return ev
}

func (r *vfcRun) finish() map[string]any {
	var recs []map[string]any
	for _, s := range r.sess {
		rec := map[string]any{"i": s.i, "role": s.cfg.Role, "owner": s.cfg.Owner, "target": s.cfg.Target,
			"ret": "-", "key": "-", "oe": "-", "oeh": "-", "pe": "-", "s3": false, "s4": false, "in": []string{}, "errc": "-", "nf": 0}
		if s.conn != nil {
			// the intruder goes on where the real code went further than the script expects: a
			// responder that answered a step-3 box with its step 4 and got no acknowledge from the
			// script is sent a positive one (only possible when model and code disagree)
			if !s.closed && s.cfg.Role == "rsp" && len(s.frames) >= 2 && len(s.in) == 2 {
				s.in = append(s.in, "I:ack+!")
				s.conn.deliver(vfcFrame(&handshake.RequesterAcknowledgePayload{Success: true}))
				s.conn.settle()
				out, key := r.outcome(s, r.collect(s))
				r.auto = append(r.auto, map[string]any{"ev": "ack", "s": s.i, "x": "t", "src": 0, "acct": "-", "pfk": "-", "pfj": 0,
					"c": false, "skip": false, "auto": true, "out": out, "key": key})
			}
			// ... and a handleIncomingRequest that got through the handshake without the script
			// announcing a contact is announced the key that was claimed in the step-3 box
			if !s.closed && s.cfg.Role == "rsp" && len(s.frames) >= 2 && len(s.in) == 3 && s.claimed != "" {
				s.conn.mu.Lock()
				live := !s.conn.done
				s.conn.mu.Unlock()
				if pk := r.keys.pub[s.claimed]; live && pk != nil {
					raw, _ := pk.Raw()
					sc := &protocoltypes.ShareableContact{Pk: raw, PublicRendezvousSeed: make([]byte, protocoltypes.RendezvousSeedLength)}
					s.in = append(s.in, "I:contact:"+s.claimed+"!")
					s.conn.deliver(vfcFrame(sc))
					s.conn.settle()
				}
			}
			if !s.closed {
				s.conn.closeIn()
			}
			s.conn.mu.Lock()
			for !s.conn.done {
				s.conn.cond.Wait()
			}
			s.conn.mu.Unlock()
			r.collect(s)
			out, key := r.outcome(s, 0)
			switch out {
			case "done":
				rec["ret"] = "ok"
			case "panic":
				rec["ret"] = "panic"
				rec["errc"] = fmt.Sprint(s.conn.panicked)
			default:
				rec["ret"] = "err"
				if cs := errcode.Codes(s.conn.err); len(cs) > 0 {
					rec["errc"] = strings.TrimPrefix(cs[0].String(), "ErrHandshake")
				}
			}
			rec["key"] = key
			if s.ownEph != nil {
				rec["oe"] = "e" + strconv.Itoa(s.i)
				rec["oeh"] = vfcCanon(s.ownEph)
			}
			rec["pe"] = r.nameOfEph(s.peerEph)
			rec["s3"] = s.cfg.Role == "req" && len(s.frames) >= 2
			rec["s4"] = s.cfg.Role == "rsp" && len(s.frames) >= 2
			rec["nf"] = len(s.frames)
			if s.in != nil {
				rec["in"] = s.in
			}
		}
		recs = append(recs, rec)
	}
	// for which keys of this run does the account group now hold an incoming contact request?
	app := []string{}
	ms := vfcW.svc.accountGroupCtx.metadataStore
	for _, n := range []string{"A", "E", "W"} {
		if ms.getContactStatus(r.keys.pub[n]) == protocoltypes.ContactState_ContactStateReceived {
			app = append(app, n)
		}
	}
	vfcAppMu.Lock()
	vfcAppended += len(app)
	vfcAppMu.Unlock()
	return map[string]any{"ev": "fin", "sess": recs, "app": app}
}

type vfcJob struct {
	sc     *vfcScript
	lowIdx int
	ft     string
	mutIdx int
	steps  bool
}

func vfcUses(sc *vfcScript) (low, f, junk bool) {
	for _, st := range sc.Steps {
		if st.X == "low" {
			low = true
		}
		if st.Acct == "F" {
			f = true
		}
		if st.C {
			junk = true
		}
	}
	return
}

func vfcExec(j vfcJob) ([]map[string]any, int) {
	salt := int64(j.sc.ID)*1000003 + int64(j.lowIdx)*7919 + int64(j.mutIdx+1)*104729 + int64(len(j.ft))
	r := &vfcRun{sc: j.sc, lowIdx: j.lowIdx, ft: j.ft, mutIdx: j.mutIdx, rnd: vfRand(salt)}
	id := fmt.Sprintf("%d/%d/%s/%d", j.sc.ID, j.lowIdx, j.ft, j.mutIdx)
	descr := []string{}
	for _, c := range j.sc.Cfg.Sess {
		d := "none"
		switch c.Role {
		case "req":
			d = "r" + c.Owner + c.Target
		case "rsp":
			d = "s" + c.Owner
		}
		descr = append(descr, d)
	}
	r.start()
	var evs []map[string]any
	for _, st := range j.sc.Steps {
		ev := r.step(st)
		if j.steps {
			evs = append(evs, ev)
		}
	}
	fin := r.finish()
	if j.steps {
		evs = append(evs, r.auto...)
	}
	low, f, _ := vfcUses(j.sc)
	// does the model describe this concretisation?  (a "low" encoding that is not degenerate
	// in this X25519 implementation, or the small-order identity key, are executed and judged
	// by the monitor but are outside the full specification)
	model := (!low || vfcLowPoints[j.lowIdx].zero) && !(f && j.ft == "edsmall")
	reset := map[string]any{"ev": "reset", "id": id, "sid": j.sc.ID, "d": descr, "model": model,
		"low": vfcLowPoints[j.lowIdx].name, "lowzero": vfcLowPoints[j.lowIdx].zero, "ft": j.ft, "mut": r.mutDesc, "obs": r.obs}
	out := append([]map[string]any{reset}, evs...)
	out = append(out, fin)
	return out, r.nmut
}

func TestVerifContactReplay(t *testing.T) {
	scripts := vfcLoadScripts(t)
	tr := vfOpenTrace(t)
	defer tr.Close()
	ctx, cancel := context.WithCancel(context.Background())
	defer cancel()
	mn := mocknet.New()
	defer mn.Close()
	tp, cleanup := NewTestingProtocol(ctx, t, &TestingOpts{Mocknet: mn, DiscoveryServer: tinder.NewMockDriverServer()}, nil)
	defer cleanup()
	svc := tp.Service.(*service)
	if svc.contactRequestsManager == nil {
		vfInfra("service has no contact request manager")
	}
	vfcW = &vfcWorld{svc: svc, mgr: svc.contactRequestsManager, ctx: ctx}
	workers := vfEnvInt("VERIF_WORKERS", 8)
	ch := make(chan vfcJob, 256)
	var wg sync.WaitGroup
	var mu sync.Mutex
	runs := 0
	emit := func(evs []map[string]any) {
		tr.EmitBlock(evs)
		mu.Lock()
		runs++
		mu.Unlock()
	}
	for w := 0; w < workers; w++ {
		wg.Add(1)
		go func() {
			defer wg.Done()
			for j := range ch {
				evs, _ := vfcExec(j)
				emit(evs)
			}
		}()
	}
	for si := range scripts {
		sc := &scripts[si]
		low, f, junk := vfcUses(sc)
		lows := []int{0}
		if low && len(sc.Cfg.Low) > 0 {
			lows = sc.Cfg.Low
		}
		fts := []string{""}
		if f {
			fts = sc.Cfg.FT
			if len(fts) == 0 {
				fts = []string{"rsa"}
			}
		}
		// step events are recorded for the first concretisation the model describes (all of
		// them with stepsall)
		stepsLeft := sc.Cfg.Steps
		inModel := func(li int, ft string) bool { return (!low || vfcLowPoints[li].zero) && ft != "edsmall" }
		combo := 0
		for _, li := range lows {
			if li < 0 || li >= len(vfcLowPoints) {
				vfInfra("bad low index %d", li)
			}
			for _, ft := range fts {
				want := inModel(li, ft) && (stepsLeft || sc.Cfg.StepsAll)
				if want {
					stepsLeft = false
				}
				combo++
				if !junk {
					ch <- vfcJob{sc: sc, lowIdx: li, ft: ft, mutIdx: -1, steps: want}
					continue
				}
				// learn the number of corruptions of the frame from a first run
				evs0, n := vfcExec(vfcJob{sc: sc, lowIdx: li, ft: ft, mutIdx: 0, steps: want})
				if n == 0 {
					emit(evs0) // the corrupted delivery was never reached with a frame
					continue
				}
				var idx []int
				mode := sc.Cfg.Mut
				switch {
				case strings.HasPrefix(mode, "one:"):
					k, err := strconv.Atoi(mode[4:])
					if err != nil || k < 0 || k >= n {
						vfInfra("bad mutation selector %q (n=%d)", mode, n)
					}
					idx = []int{k}
				case mode == "all" && combo == 1:
					for k := 0; k < n; k++ {
						idx = append(idx, k)
					}
				default:
					k := 2
					if strings.HasPrefix(mode, "sample:") {
						k, _ = strconv.Atoi(mode[7:])
					}
					rr := vfRand(int64(sc.ID)*31 + int64(li))
					for q := 0; q < k; q++ {
						idx = append(idx, rr.Intn(n))
					}
				}
				seenIdx := map[int]bool{}
				for q, k := range idx {
					if seenIdx[k] {
						continue
					}
					seenIdx[k] = true
					if k == 0 {
						emit(evs0)
						continue
					}
					ch <- vfcJob{sc: sc, lowIdx: li, ft: ft, mutIdx: k, steps: want && (sc.Cfg.StepsAll || q == 0)}
				}
			}
		}
	}
	close(ch)
	wg.Wait()
	// cross-check: the AccountContactRequestIncomingReceived events in the log of the account group
	evch, err := svc.accountGroupCtx.metadataStore.ListEvents(ctx, nil, nil, false)
	vfcMust(err, "list events")
	nIncoming := 0
	for e := range evch {
		if e.Metadata.EventType == protocoltypes.EventType_EventTypeAccountContactRequestIncomingReceived {
			nIncoming++
		}
	}
	vfcAppMu.Lock()
	if nIncoming != vfcAppended {
		vfInfra("log holds %d incoming-request events, runs observed %d", nIncoming, vfcAppended)
	}
	vfcAppMu.Unlock()
	t.Logf("VERIF-INCOMING events=%d", nIncoming)
	names := []string{}
	for _, l := range vfcLowPoints {
		names = append(names, fmt.Sprintf("%s=%s zero=%v", l.name, hex.EncodeToString(l.enc[:]), l.zero))
	}
	t.Logf("VERIF-LOWPOINTS %s", strings.Join(names, "; "))
	t.Logf("VERIF-DONE scripts=%d runs=%d events=%d", len(scripts), runs, tr.n)
}
