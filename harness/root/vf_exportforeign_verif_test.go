//go:build verif

package weshnet

// C20 driver, second writer (see vf_foreign_verif_test.go): the exported logs then have several heads;
// the archive must list all of them and the restored log must have exactly the same entries and heads.

import "berty.tech/weshnet/v2/pkg/protocoltypes"

var vfXForeigns = map[*vfXWorld]*vfForeign{}

func (w *vfXWorld) foreignWrite(g *protocoltypes.Group, src *GroupContext, n int) error {
	f := vfXForeigns[w]
	if f == nil {
		var err error
		if f, err = vfNewForeign(w.ctx, w.tp.IpfsCoreAPI, g); err != nil {
			return err
		}
		vfXForeigns[w] = f
	}
	return f.Write(w.ctx, src, n)
}
