//go:build verif

package weshnet_test

// Service-level driver of C14 (push payloads open offline to the right message without disturbing
// the log path): api_app.go (OutOfStoreSeal / OutOfStoreReceive), store_message.go
// (GetOutOfStoreMessageEnvelope / GetMessageByCID, the message store's log path) and
// pkg/outofstoremessage (the standalone service that opens push payloads from the receiver's
// root datastore without a running node).
//
// World: protocol services (NewTestingProtocol) s1, s2 (senders) and r (receiver) over ONE
// in-memory IPFS node, every service on its own root datastore with its secret store built on
// that root datastore (as service.go does).  Groups are activated LocalOnly: nothing moves
// between the services unless the script says so.  Replication is done by hand:
// BaseStore.Sync(heads) on the receiving store with the entry named by the step (the store
// joins that entry and the part of its causal past it lacks).
//
// Streams (the monitor's devices): d1 = s1 in group g1, d2 = s2 in g1, e1 = s1 in a second
// group g2 shared with r, f1 = s1 in a group g3 that r never joins.
//
// Steps:  send(d)           AppMessageSend at the sender
//         announce(d)       the sender's replica gets the receiver's metadata entries: its handler
//                           publishes its chain key for the receiver (at its current counter)
//         register(d)       the receiver's replica gets the sender's metadata entries (RegisterChainKey
//                           by the receiver's own handler, parked messages are retried)
//         deliver(d,k)      the receiver's message store gets the log entry of message k
//         push(d,k)         OutOfStoreSeal(cid_k, group) at the sender, OutOfStoreReceive at the
//                           receiver: s = "svc" the node's service, "off" a standalone
//                           pkg/outofstoremessage service built over the receiver's root datastore,
//                           "offc" the same through its in-memory gRPC client
//         list              GroupMessageList(until_now) at the receiver (gRPC client), every group
//         sealbad(kind)     OutOfStoreSeal with a CID that is not a message of that group
//         recvbad(kind)     OutOfStoreReceive of altered payloads / of a group unknown to the receiver
//
// Quiescence: the services work asynchronously (event-bus consumers, the message store's
// processing loop, the group context's metadata handler).  After every step the driver waits
// until no goroutine that runs code of berty.tech/* is running, runnable or blocked on a lock or a
// channel send (one runtime.Stack snapshot taken with the world stopped; a parked consumer has
// an empty channel).  Only then the observations of the step are taken.  Timeout = infrastructure.
//
// Recorded values are observed ones: counters come from the envelope headers the sender's own
// store wrote, deliveries of the log path from the receiver's event bus (GroupMessageEvent) and
// from the list replies, push outcomes from the replies.

import (
	"bytes"
	"context"
	"fmt"
	"io"
	"runtime"
	"sort"
	"strings"
	"testing"
	"time"

	"github.com/ipfs/go-cid"
	"github.com/ipfs/go-datastore"
	dssync "github.com/ipfs/go-datastore/sync"
	"github.com/libp2p/go-libp2p/core/crypto"
	"github.com/libp2p/go-libp2p/core/event"
	"github.com/libp2p/go-libp2p/p2p/host/eventbus"
	mocknet "github.com/libp2p/go-libp2p/p2p/net/mock"
	"go.uber.org/zap"
	"google.golang.org/protobuf/proto"

	ipfslog "berty.tech/go-ipfs-log"
	orbitdb "berty.tech/go-orbit-db"
	"berty.tech/go-orbit-db/stores/operation"
	weshnet "berty.tech/weshnet/v2"
	"berty.tech/weshnet/v2/pkg/ipfsutil"
	"berty.tech/weshnet/v2/pkg/outofstoremessage"
	"berty.tech/weshnet/v2/pkg/protocoltypes"
	"berty.tech/weshnet/v2/pkg/secretstore"
	"berty.tech/weshnet/v2/pkg/tinder"
)

// ---------------------------------------------------------------------------- quiescence

var vfpsStackBuf = make([]byte, 4<<20)

var vfpsParked = map[string]bool{
	"select": true, "chan receive": true, "sleep": true, "IO wait": true, "sync.Cond.Wait": true,
	"semacquire": true, "sync.WaitGroup.Wait": true, "select (no cases)": true,
	"chan receive (nil chan)": true, "chan send (nil chan)": true, "finalizer wait": true,
}

// vfpsBusy lists the goroutines (other than the caller) that execute or were started by code of
// berty.tech/* and are not parked
func vfpsBusy() []string {
	var n int
	for {
		n = runtime.Stack(vfpsStackBuf, true)
		if n < len(vfpsStackBuf) {
			break
		}
		vfpsStackBuf = make([]byte, 2*len(vfpsStackBuf))
	}
	blocks := strings.Split(string(vfpsStackBuf[:n]), "\n\n")
	var busy []string
	for i, b := range blocks {
		if i == 0 { // the caller
			continue
		}
		if !strings.Contains(b, "berty.tech/") {
			continue
		}
		nl := strings.IndexByte(b, '\n')
		if nl < 0 {
			continue
		}
		hdr := b[:nl]
		lb, rb := strings.IndexByte(hdr, '['), strings.LastIndexByte(hdr, ']')
		if lb < 0 || rb < lb {
			continue
		}
		state := hdr[lb+1 : rb]
		if c := strings.IndexByte(state, ','); c >= 0 {
			state = state[:c]
		}
		if vfpsParked[state] {
			continue
		}
		frame := ""
		for _, l := range strings.Split(b[nl+1:], "\n") {
			if strings.HasPrefix(l, "berty.tech/") {
				frame = l
				break
			}
		}
		busy = append(busy, hdr+" "+frame)
	}
	return busy
}

func vfpsQuiesce(what string) {
	deadline := time.Now().Add(30 * time.Second)
	calm := 0
	var busy []string
	for {
		if busy = vfpsBusy(); len(busy) == 0 {
			calm++
			if calm >= 2 {
				return
			}
			runtime.Gosched()
			continue
		}
		calm = 0
		if time.Now().After(deadline) {
			vfInfra("no quiescence within 30s after %s: %s", what, strings.Join(busy, " | "))
		}
		time.Sleep(100 * time.Microsecond)
	}
}

// ---------------------------------------------------------------------------- world

type vfpsNode struct {
	name string
	ds   datastore.Batching
	ss   secretstore.SecretStore
	tp   *weshnet.TestingProtocol
	off  outofstoremessage.OOSMService       // standalone service over the same root datastore (receiver only)
	offc outofstoremessage.OOSMServiceClient // ... through its gRPC client
	stop func()
}

type vfpsWorld struct {
	t     testing.TB
	ctx   context.Context
	w, n  int
	nodes map[string]*vfpsNode
	close func()
}

func vfpsNewWorld(t testing.TB, w, n int) *vfpsWorld {
	ctx := context.Background()
	mn := mocknet.New()
	disc := tinder.NewMockDriverServer()
	node := ipfsutil.TestingCoreAPIUsingMockNet(ctx, t, &ipfsutil.TestingAPIOpts{Logger: zap.NewNop(), Mocknet: mn, DiscoveryServer: disc})
	wd := &vfpsWorld{t: t, ctx: ctx, w: w, n: n, nodes: map[string]*vfpsNode{}}
	ssOpts := func() *secretstore.NewSecretStoreOptions {
		if w == secretstore.PrecomputeMessageKeyCount && n == secretstore.PrecomputeOutOfStoreGroupRefsCount {
			return nil // the defaults, as a node started by service.go has them
		}
		return &secretstore.NewSecretStoreOptions{PreComputedKeysCount: w, PrecomputeOutOfStoreGroupRefsCount: n}
	}
	for _, name := range []string{"s1", "s2", "r"} {
		nd := &vfpsNode{name: name, ds: dssync.MutexWrap(datastore.NewMapDatastore())}
		var err error
		if nd.ss, err = secretstore.NewSecretStore(nd.ds, ssOpts()); err != nil {
			vfInfra("secret store: %v", err)
		}
		// an orbit-db instance with its own pubsub front (NewTestingProtocol's default shares the node's raw
		// pubsub between instances: the same group could not be opened twice on one node)
		odb, err := weshnet.NewWeshOrbitDB(ctx, node.API(), &weshnet.NewOrbitDBOptions{
			NewOrbitDBOptions: orbitdb.NewOrbitDBOptions{Logger: zap.NewNop()}, Datastore: nd.ds, SecretStore: nd.ss})
		if err != nil {
			vfInfra("orbitdb: %v", err)
		}
		nd.tp, nd.stop = weshnet.NewTestingProtocol(ctx, t, &weshnet.TestingOpts{Logger: zap.NewNop(), Mocknet: mn, DiscoveryServer: disc,
			SecretStore: nd.ss, CoreAPIMock: node, OrbitDB: odb}, nd.ds)
		wd.nodes[name] = nd
	}
	r := wd.nodes["r"]
	var err error
	if ssOpts() == nil {
		// production path: the standalone service builds its own secret store from the root datastore
		r.off, err = outofstoremessage.NewOutOfStoreMessageService(outofstoremessage.WithRootDatastore(r.ds))
		if err == nil {
			r.offc, err = outofstoremessage.NewOutOfStoreMessageServiceClient(outofstoremessage.WithRootDatastore(r.ds))
		}
	} else {
		// small windows are an option of the secret store only: hand one with the node's options over
		mk := func() outofstoremessage.OOSMOption {
			ss, err := secretstore.NewSecretStore(r.ds, ssOpts())
			if err != nil {
				vfInfra("secret store: %v", err)
			}
			return outofstoremessage.WithSecretStore(ss)
		}
		r.off, err = outofstoremessage.NewOutOfStoreMessageService(outofstoremessage.WithRootDatastore(r.ds), mk())
		if err == nil {
			r.offc, err = outofstoremessage.NewOutOfStoreMessageServiceClient(outofstoremessage.WithRootDatastore(r.ds), mk())
		}
	}
	if err != nil {
		vfInfra("standalone out-of-store service: %v", err)
	}
	wd.close = func() {
		_ = r.offc.Close()
		for _, nd := range wd.nodes {
			nd.stop()
		}
		_ = mn.Close()
	}
	vfpsQuiesce("world start")
	return wd
}

func (nd *vfpsNode) gc(g *protocoltypes.Group) *weshnet.GroupContext {
	gc, err := nd.tp.Service.(weshnet.ServiceMethods).GetContextGroupForID(g.PublicKey)
	if err != nil {
		vfInfra("group context on %s: %v", nd.name, err)
	}
	return gc
}

// ---------------------------------------------------------------------------- one script

type vfpsMsg struct {
	stream  string
	k       int
	cid     []byte
	payload []byte
}

type vfpsGroup struct {
	name    string
	g       *protocoltypes.Group
	gpk     crypto.PubKey
	members []string
	sub     event.Subscription // receiver's message-store bus: deliveries of the log path
}

type vfpsStream struct {
	name      string
	grp       *vfpsGroup
	snd       *vfpsNode
	devRaw    []byte
	byK       map[int]*vfpsMsg
	order     []*vfpsMsg
	announced bool
	annAt     int
	reg       bool
	dlv       int // index (1-based position in order) up to which the receiver's log has the entries
}

type vfpsKept struct {
	got  []byte
	want []byte
}

type vfpsRun struct {
	wd      *vfpsWorld
	sc      vfScript
	ctx     context.Context
	groups  map[string]*vfpsGroup
	streams map[string]*vfpsStream
	byCID   map[string]*vfpsMsg
	kept    []vfpsKept
	out     []map[string]any
	step    int
}

var vfpsStreamDef = map[string][2]string{"d1": {"g1", "s1"}, "d2": {"g1", "s2"}, "e1": {"g2", "s1"}, "f1": {"g3", "s1"}}
var vfpsGroupMembers = map[string][]string{"g1": {"s1", "s2", "r"}, "g2": {"s1", "r"}, "g3": {"s1"}}

func (r *vfpsRun) emit(ev map[string]any) {
	ev["i"] = r.step
	r.out = append(r.out, ev)
}

func (r *vfpsRun) keptOK() bool {
	for _, k := range r.kept {
		if !bytes.Equal(k.got, k.want) {
			return false
		}
	}
	return true
}

func (r *vfpsRun) group(name string) *vfpsGroup {
	if g, ok := r.groups[name]; ok {
		return g
	}
	g, _, err := weshnet.NewGroupMultiMember()
	if err != nil {
		vfInfra("new group: %v", err)
	}
	gpk, err := g.GetPubKey()
	if err != nil {
		vfInfra("group key: %v", err)
	}
	gr := &vfpsGroup{name: name, g: g, gpk: gpk, members: vfpsGroupMembers[name]}
	for _, m := range gr.members {
		nd := r.wd.nodes[m]
		if _, err := nd.tp.Service.MultiMemberGroupJoin(r.ctx, &protocoltypes.MultiMemberGroupJoin_Request{Group: g}); err != nil {
			vfInfra("join on %s: %v", m, err)
		}
		if _, err := nd.tp.Service.ActivateGroup(r.ctx, &protocoltypes.ActivateGroup_Request{GroupPk: g.PublicKey, LocalOnly: true}); err != nil {
			vfInfra("activate on %s: %v", m, err)
		}
	}
	vfpsQuiesce("group activation")
	if len(gr.members) > 1 {
		sub, err := r.wd.nodes["r"].gc(g).MessageStore().EventBus().Subscribe(new(*protocoltypes.GroupMessageEvent), eventbus.BufSize(8192))
		if err != nil {
			vfInfra("subscribe: %v", err)
		}
		gr.sub = sub
	}
	r.groups[name] = gr
	return gr
}

func (r *vfpsRun) stream(name string) *vfpsStream {
	if s, ok := r.streams[name]; ok {
		return s
	}
	def, ok := vfpsStreamDef[name]
	if !ok {
		vfInfra("unknown stream %q", name)
	}
	gr := r.group(def[0])
	s := &vfpsStream{name: name, grp: gr, snd: r.wd.nodes[def[1]], byK: map[int]*vfpsMsg{}}
	raw, err := s.snd.gc(gr.g).DevicePubKey().Raw()
	if err != nil {
		vfInfra("device key: %v", err)
	}
	s.devRaw = raw
	r.streams[name] = s
	return s
}

func (r *vfpsRun) finish() {
	for _, gr := range r.groups {
		if gr.sub != nil {
			_ = gr.sub.Close()
		}
		for _, m := range gr.members {
			if _, err := r.wd.nodes[m].tp.Service.DeactivateGroup(r.ctx, &protocoltypes.DeactivateGroup_Request{GroupPk: gr.g.PublicKey}); err != nil {
				vfInfra("deactivate: %v", err)
			}
		}
	}
	vfpsQuiesce("deactivation")
}

// syncStore makes `to` join the given entry (and the part of its causal past it lacks)
func (r *vfpsRun) syncMeta(from, to *vfpsNode, g *protocoltypes.Group) {
	src, dst := from.gc(g).MetadataStore(), to.gc(g).MetadataStore()
	heads := src.OpLog().Heads().Slice()
	want := []cid.Cid{}
	for _, e := range src.OpLog().GetEntries().Slice() {
		want = append(want, e.GetHash())
	}
	if err := dst.Sync(r.ctx, heads); err != nil {
		vfInfra("sync metadata %s -> %s: %v", from.name, to.name, err)
	}
	deadline := time.Now().Add(30 * time.Second)
	for {
		missing := 0
		for _, c := range want {
			if _, ok := dst.OpLog().Get(c); !ok {
				missing++
			}
		}
		if missing == 0 {
			break
		}
		if time.Now().After(deadline) {
			vfInfra("metadata sync %s -> %s did not complete within 30s", from.name, to.name)
		}
		time.Sleep(200 * time.Microsecond)
	}
	vfpsQuiesce("metadata sync")
}

// drain turns what the receiver's log path delivered since the last call into lopen events
func (r *vfpsRun) drain() {
	names := []string{}
	for n := range r.groups {
		names = append(names, n)
	}
	sort.Strings(names)
	for _, n := range names {
		gr := r.groups[n]
		if gr.sub == nil {
			continue
		}
		for {
			select {
			case e := <-gr.sub.Out():
				r.lopen(e.(*protocoltypes.GroupMessageEvent), gr, "bus")
				continue
			default:
			}
			break
		}
	}
}

func (r *vfpsRun) lopen(e *protocoltypes.GroupMessageEvent, gr *vfpsGroup, src string) {
	var id []byte
	if e.EventContext != nil {
		id = e.EventContext.Id
	}
	m := r.byCID[string(id)]
	if m == nil {
		r.emit(map[string]any{"ev": "stray", "src": src, "g": gr.name})
		return
	}
	s := r.streams[m.stream]
	ev := map[string]any{"ev": "lopen", "d": m.stream, "k": m.k, "src": src, "same": bytes.Equal(e.Message, m.payload),
		"pgroup": e.EventContext != nil && bytes.Equal(e.EventContext.GroupPk, gr.g.PublicKey) && s.grp == gr}
	if e.Headers != nil {
		ev["pk"] = int(e.Headers.Counter)
		ev["pdev"] = bytes.Equal(e.Headers.DevicePk, s.devRaw)
	} else {
		ev["pk"] = -1
		ev["pdev"] = false
	}
	r.kept = append(r.kept, vfpsKept{got: e.Message, want: m.payload})
	ev["kept"] = r.keptOK()
	r.emit(ev)
}

func (r *vfpsRun) send(st vfStep) {
	s := r.stream(st.D)
	idx := len(s.order) + 1
	rnd := vfRand(int64(r.sc.ID)*7919 + int64(r.step))
	payload := append([]byte(fmt.Sprintf("%d/%s/%d|", r.sc.ID, s.name, idx)), vfPayload(rnd, r.sc.ID+r.step)...)
	rep, err := s.snd.tp.Service.AppMessageSend(r.ctx, &protocoltypes.AppMessageSend_Request{GroupPk: s.grp.g.PublicKey, Payload: payload})
	if err != nil {
		vfInfra("AppMessageSend: %v", err)
	}
	_, c, err := cid.CidFromBytes(rep.Cid)
	if err != nil {
		vfInfra("AppMessageSend replied a bad cid: %v", err)
	}
	gc := s.snd.gc(s.grp.g)
	e, ok := gc.MessageStore().OpLog().Get(c)
	if !ok {
		vfInfra("the sender's log has no entry for the cid AppMessageSend replied")
	}
	op, err := operation.ParseOperation(e)
	if err != nil {
		vfInfra("parse operation: %v", err)
	}
	_, hdr, err := gc.SecretStore().OpenEnvelopeHeaders(op.GetValue(), s.grp.g)
	if err != nil {
		vfInfra("sender opens its own headers: %v", err)
	}
	m := &vfpsMsg{stream: s.name, k: int(hdr.Counter), cid: rep.Cid, payload: payload}
	s.byK[m.k] = m
	s.order = append(s.order, m)
	r.byCID[string(rep.Cid)] = m
	vfpsQuiesce("send")
	if len(s.grp.members) > 1 {
		if _, have := r.recv().gc(s.grp.g).MessageStore().OpLog().Get(c); have {
			vfInfra("the receiver got a message entry without a deliver step (replication is not under the driver's control)")
		}
	}
	r.emit(map[string]any{"ev": "seal", "d": s.name, "k": m.k})
}

func (r *vfpsRun) recv() *vfpsNode { return r.wd.nodes["r"] }

func (r *vfpsRun) announce(st vfStep) {
	s := r.stream(st.D)
	if s.announced || len(s.grp.members) < 2 {
		return
	}
	before := s.snd.gc(s.grp.g).MetadataStore().OpLog().Len()
	r.syncMeta(r.recv(), s.snd, s.grp.g)
	s.announced, s.annAt = true, len(s.order)
	r.emit(map[string]any{"ev": "announce", "d": s.name, "a": s.annAt, "grew": s.snd.gc(s.grp.g).MetadataStore().OpLog().Len() - before})
}

func (r *vfpsRun) register(st vfStep) {
	s := r.stream(st.D)
	if !s.announced || len(s.grp.members) < 2 {
		return
	}
	r.syncMeta(s.snd, r.recv(), s.grp.g)
	dev, err := crypto.UnmarshalEd25519PublicKey(s.devRaw)
	if err != nil {
		vfInfra("device key: %v", err)
	}
	known := r.recv().gc(s.grp.g).SecretStore().IsChainKeyKnownForDevice(r.ctx, s.grp.gpk, dev)
	if !known {
		vfInfra("the receiver does not know the sender's chain key after the metadata exchange (key distribution, not C14)")
	}
	s.reg = true
	r.emit(map[string]any{"ev": "register", "d": s.name, "a": s.annAt, "ok": known})
	r.drain()
}

func (r *vfpsRun) deliver(st vfStep) {
	s := r.stream(st.D)
	m := s.byK[st.X]
	if m == nil || len(s.grp.members) < 2 {
		return
	}
	_, c, _ := cid.CidFromBytes(m.cid)
	src, dst := s.snd.gc(s.grp.g).MessageStore(), r.recv().gc(s.grp.g).MessageStore()
	e, ok := src.OpLog().Get(c)
	if !ok {
		vfInfra("sender lost its entry")
	}
	if _, have := dst.OpLog().Get(c); !have {
		if err := dst.Sync(r.ctx, []ipfslog.Entry{e}); err != nil {
			vfInfra("sync message: %v", err)
		}
		deadline := time.Now().Add(30 * time.Second)
		for {
			if _, have := dst.OpLog().Get(c); have {
				break
			}
			if time.Now().After(deadline) {
				vfInfra("message sync did not complete within 30s")
			}
			time.Sleep(200 * time.Microsecond)
		}
	}
	vfpsQuiesce("message sync")
	for i, o := range s.order {
		if o == m && i+1 > s.dlv {
			s.dlv = i + 1
		}
	}
	r.emit(map[string]any{"ev": "deliver", "d": s.name, "k": m.k})
	r.drain()
}

func (r *vfpsRun) receive(via string, payload []byte) (*protocoltypes.OutOfStoreReceive_Reply, error) {
	req := &protocoltypes.OutOfStoreReceive_Request{Payload: payload}
	switch via {
	case "off":
		return r.recv().off.OutOfStoreReceive(r.ctx, req)
	case "offc":
		return r.recv().offc.OutOfStoreReceive(r.ctx, req)
	default:
		return r.recv().tp.Service.OutOfStoreReceive(r.ctx, req)
	}
}

func vfpsVia(s string) string {
	if s == "off" || s == "offc" {
		return s
	}
	return "svc"
}

func (r *vfpsRun) push(st vfStep) {
	s := r.stream(st.D)
	m := s.byK[st.X]
	if m == nil {
		return
	}
	via := vfpsVia(st.S)
	ev := map[string]any{"ev": "push", "d": s.name, "k": m.k, "via": via}
	seal, err := s.snd.tp.Service.OutOfStoreSeal(r.ctx, &protocoltypes.OutOfStoreSeal_Request{Cid: m.cid, GroupPublicKey: s.grp.g.PublicKey})
	ev["sealok"] = err == nil
	if err == nil {
		rep, err := r.receive(via, seal.Encrypted)
		ev["ok"] = err == nil && rep != nil
		if err == nil && rep != nil {
			ev["already"] = rep.AlreadyReceived
			ev["pgroup"] = bytes.Equal(rep.GroupPublicKey, s.grp.g.PublicKey)
			ev["pk"], ev["pdev"], ev["pcid"] = -1, false, false
			if rep.Message != nil {
				ev["pk"] = int(rep.Message.Counter)
				ev["pdev"] = bytes.Equal(rep.Message.DevicePk, s.devRaw)
				ev["pcid"] = bytes.Equal(rep.Message.Cid, m.cid)
			}
			em := &protocoltypes.EncryptedMessage{}
			ev["same"] = proto.Unmarshal(rep.Cleartext, em) == nil && bytes.Equal(em.Plaintext, m.payload)
			r.kept = append(r.kept, vfpsKept{got: em.Plaintext, want: m.payload})
		}
	}
	vfpsQuiesce("push")
	ev["kept"] = r.keptOK()
	r.emit(ev)
	r.drain()
}

func (r *vfpsRun) list() {
	names := []string{}
	for n := range r.groups {
		names = append(names, n)
	}
	sort.Strings(names)
	for _, n := range names {
		gr := r.groups[n]
		if len(gr.members) < 2 {
			continue
		}
		c, cancel := context.WithTimeout(r.ctx, 30*time.Second)
		cl, err := r.recv().tp.Client.GroupMessageList(c, &protocoltypes.GroupMessageList_Request{GroupPk: gr.g.PublicKey, UntilNow: true})
		if err != nil {
			vfInfra("GroupMessageList: %v", err)
		}
		got := map[string]*protocoltypes.GroupMessageEvent{}
		var strays int
		for {
			e, err := cl.Recv()
			if err == io.EOF {
				break
			}
			if err != nil {
				if c.Err() != nil {
					vfInfra("GroupMessageList did not end within 30s")
				}
				// the handler ends the stream by cancelling its own context
				break
			}
			if e.EventContext == nil || r.byCID[string(e.EventContext.Id)] == nil {
				strays++
				continue
			}
			got[string(e.EventContext.Id)] = e
		}
		cancel()
		vfpsQuiesce("list")
		r.emit(map[string]any{"ev": "list", "g": gr.name, "n": len(got), "strays": strays})
		// attempts are made in the order of the receiver's log
		for _, e := range r.recv().gc(gr.g).MessageStore().OpLog().Values().Slice() {
			id := string(e.GetHash().Bytes())
			m := r.byCID[id]
			if m == nil {
				continue
			}
			if ge, ok := got[id]; ok {
				r.lopen(ge, gr, "list")
			} else {
				r.emit(map[string]any{"ev": "lfail", "d": m.stream, "k": m.k})
			}
		}
		r.drain()
	}
}

func (r *vfpsRun) sealbad(st vfStep) {
	s := r.stream("d1")
	kind := st.S
	req := &protocoltypes.OutOfStoreSeal_Request{GroupPublicKey: s.grp.g.PublicKey}
	switch kind {
	case "othergroup": // a message of another group of the same node
		o := r.stream("e1")
		if len(o.order) == 0 {
			return
		}
		req.Cid = o.order[len(o.order)-1].cid
	case "crossgk": // a message of this group, sealed under the key of another group of the same node
		o := r.stream("e1")
		if len(s.order) == 0 {
			return
		}
		req.Cid, req.GroupPublicKey = s.order[len(s.order)-1].cid, o.grp.g.PublicKey
	case "meta": // an entry of the group's metadata log
		hs := s.snd.gc(s.grp.g).MetadataStore().OpLog().Heads().Slice()
		if len(hs) == 0 {
			return
		}
		req.Cid = hs[0].GetHash().Bytes()
	case "unknown": // well-formed identifier of nothing
		if len(s.order) == 0 {
			return
		}
		b := append([]byte{}, s.order[0].cid...)
		b[len(b)-1] ^= 0x5a
		req.Cid = b
	case "garbage":
		req.Cid = []byte{1, 2, 3}
	case "foreigngk": // a group the node is no member of
		if len(s.order) == 0 {
			return
		}
		g, _, err := weshnet.NewGroupMultiMember()
		if err != nil {
			vfInfra("new group: %v", err)
		}
		req.Cid, req.GroupPublicKey = s.order[len(s.order)-1].cid, g.PublicKey
	case "peermsg": // a message of this group the sealing node does not have (sealed at the receiver for an undelivered message)
		if len(s.order) == 0 || s.dlv >= len(s.order) {
			return
		}
		req.Cid = s.order[len(s.order)-1].cid
		rep, err := r.recv().tp.Service.OutOfStoreSeal(r.ctx, req)
		r.emit(map[string]any{"ev": "sealbad", "kind": kind, "ok": err == nil && rep != nil})
		return
	default:
		vfInfra("unknown sealbad kind %q", kind)
	}
	rep, err := s.snd.tp.Service.OutOfStoreSeal(r.ctx, req)
	ev := map[string]any{"ev": "sealbad", "kind": kind, "ok": err == nil && rep != nil}
	if err == nil && rep != nil {
		// informational: what does the receiver make of it
		rr, err := r.receive("svc", rep.Encrypted)
		ev["rok"] = err == nil && rr != nil
	}
	vfpsQuiesce("sealbad")
	r.emit(ev)
	r.drain()
}

func (r *vfpsRun) recvbad(st vfStep) {
	kind, via := st.S, "svc"
	if i := strings.IndexByte(kind, '@'); i >= 0 {
		kind, via = st.S[:i], vfpsVia(st.S[i+1:])
	}
	ev := map[string]any{"ev": "recvbad", "kind": kind, "via": via}
	var payloads [][]byte
	switch kind {
	case "unkgroup": // valid payload of a group the receiver never joined
		o := r.stream("f1")
		if len(o.order) == 0 {
			return
		}
		seal, err := o.snd.tp.Service.OutOfStoreSeal(r.ctx, &protocoltypes.OutOfStoreSeal_Request{Cid: o.order[len(o.order)-1].cid, GroupPublicKey: o.grp.g.PublicKey})
		if err != nil {
			vfInfra("seal for the third group: %v", err)
		}
		payloads = [][]byte{seal.Encrypted}
	case "flip", "trunc":
		s := r.stream(st.D)
		m := s.byK[st.X]
		if m == nil {
			return
		}
		seal, err := s.snd.tp.Service.OutOfStoreSeal(r.ctx, &protocoltypes.OutOfStoreSeal_Request{Cid: m.cid, GroupPublicKey: s.grp.g.PublicKey})
		if err != nil {
			vfInfra("seal: %v", err)
		}
		p := seal.Encrypted
		ev["len"] = len(p)
		if kind == "trunc" {
			for _, n := range []int{0, 1, 2, len(p) / 2, len(p) - 2, len(p) - 1} {
				if n >= 0 && n < len(p) {
					payloads = append(payloads, append([]byte{}, p[:n]...))
				}
			}
		} else {
			bits := []int{}
			if st.Y <= 0 || st.Y >= 8*len(p) {
				for b := 0; b < 8*len(p); b++ {
					bits = append(bits, b)
				}
			} else {
				rnd := vfRand(int64(r.sc.ID)*104729 + int64(r.step))
				for _, b := range rnd.Perm(8 * len(p))[:st.Y] {
					bits = append(bits, b)
				}
				sort.Ints(bits)
			}
			for _, b := range bits {
				q := append([]byte{}, p...)
				q[b/8] ^= 1 << uint(b%8)
				payloads = append(payloads, q)
			}
		}
	default:
		vfInfra("unknown recvbad kind %q", kind)
	}
	acc, first := 0, -1
	for i, p := range payloads {
		rep, err := r.receive(via, p)
		if err == nil && rep != nil {
			acc++
			if first < 0 {
				first = i
			}
		}
	}
	ev["n"], ev["acc"], ev["first"] = len(payloads), acc, first
	vfpsQuiesce("recvbad")
	r.emit(ev)
	r.drain()
}

func vfpsRunScript(wd *vfpsWorld, sc vfScript) (out []map[string]any) {
	r := &vfpsRun{wd: wd, sc: sc, ctx: wd.ctx, groups: map[string]*vfpsGroup{}, streams: map[string]*vfpsStream{}, byCID: map[string]*vfpsMsg{}}
	r.out = []map[string]any{{"ev": "reset", "id": sc.ID}}
	defer r.finish()
	for i, st := range sc.Steps {
		r.step = i
		switch st.Act {
		case "send":
			r.send(st)
		case "announce":
			r.announce(st)
		case "register":
			r.register(st)
		case "deliver":
			r.deliver(st)
		case "push":
			r.push(st)
		case "list":
			r.list()
		case "sealbad":
			r.sealbad(st)
		case "recvbad":
			r.recvbad(st)
		default:
			vfInfra("unknown action %q", st.Act)
		}
	}
	return r.out
}

func TestVerifPushSvc(t *testing.T) {
	scripts := vfLoadScripts(t)
	tr := vfOpenTrace(t)
	defer tr.Close()
	var wd *vfpsWorld
	n := 0
	for _, sc := range scripts {
		w, _ := vfNum(sc.Cfg, "W")
		nn, _ := vfNum(sc.Cfg, "N")
		if wd == nil || wd.w != w || wd.n != nn || n >= 150 {
			if wd != nil {
				wd.close()
			}
			wd = vfpsNewWorld(t, w, nn)
			n = 0
		}
		n++
		tr.EmitBlock(vfpsRunScript(wd, sc))
	}
	if wd != nil {
		wd.close()
	}
	t.Logf("VERIF-DONE scripts=%d events=%d", len(scripts), tr.n)
}
