//go:build verif

package weshnet

// Driver for specs/Rendezvous.tla (C17), head-exchange part: the same histories as the
// pkg/rendezvous driver, executed through two OrbitDBMessageMarshalers.  resolve = Marshal of a
// head-exchange message (carries the sender's current rotation value), accept = Unmarshal of a
// payload carrying a given rotation value (the payload another marshaler really produced when
// there is one, else a hand-made one sealed under the key of that topic and seed).  Time is the
// virtual clock injected into pkg/rendezvous by checks/rendezvous.py.

import (
	"crypto/rand"
	"crypto/sha256"
	"encoding/hex"
	"fmt"
	"testing"
	"time"

	"github.com/libp2p/go-libp2p/core/crypto"
	peer "github.com/libp2p/go-libp2p/core/peer"
	"google.golang.org/protobuf/proto"

	"berty.tech/go-ipfs-log/enc"
	"berty.tech/go-ipfs-log/entry"
	"berty.tech/go-orbit-db/iface"
	"berty.tech/weshnet/v2/pkg/protocoltypes"
	"berty.tech/weshnet/v2/pkg/rendezvous"
	"berty.tech/weshnet/v2/pkg/secretstore"
)

func vfMmSeed(s string) []byte  { return []byte("seed-" + s + "-0123456789abcdef0123456789") }
func vfMmTopic(t string) string { return "/orbitdb/verif/" + t }
func vfMmKey(t, s string) []byte {
	h := sha256.Sum256(append([]byte(vfMmTopic(t)+"|"), vfMmSeed(s)...))
	return h[:]
}

type vfMmTri struct {
	T, S string
	P    int64
}

type vfMmPeer struct {
	rp *rendezvous.RotationInterval
	m  *OrbitDBMessageMarshaler
}

func vfMmInts(v any) []int {
	l, _ := v.([]any)
	out := []int{}
	for _, x := range l {
		f, _ := x.(float64)
		out = append(out, int(f))
	}
	return out
}

func TestVerifMarshalerReplay(t *testing.T) {
	scripts := vfLoadScripts(t)
	tr := vfOpenTrace(t)
	defer tr.Close()
	groups := map[string]*protocoltypes.Group{}
	group := func(topic string) *protocoltypes.Group {
		if groups[topic] == nil {
			g, _, err := NewGroupMultiMember()
			if err != nil {
				vfInfra("group: %v", err)
			}
			groups[topic] = g
		}
		return groups[topic]
	}
	key := ""
	var byTri map[vfMmTri]string
	var byVal map[string]vfMmTri
	for _, sc := range scripts {
		g := func(k string) int64 { v, _ := vfNum(sc.Cfg, k); return int64(v) }
		I, U, offS, offNs, base := g("I"), g("u"), g("off_s"), g("off_ns"), g("base")
		isec := I * U
		interval := time.Duration(isec) * time.Second
		baseper := base / isec
		var topics, seeds []string
		for _, x := range sc.Cfg["topics"].([]any) {
			topics = append(topics, x.(string))
		}
		for _, x := range sc.Cfg["seeds"].([]any) {
			seeds = append(seeds, x.(string))
		}
		periods := vfMmInts(sc.Cfg["periods"])
		k := fmt.Sprint(I, U, offS, offNs, base, periods)
		if k != key {
			key = k
			gid, _ := vfNum(sc.Cfg, "gid")
			byTri, byVal = map[vfMmTri]string{}, map[string]vfMmTri{}
			blk := []map[string]any{{"ev": "reset", "id": -1 - gid},
				{"ev": "cfg", "isec": int(isec), "gmin": int(rendezvous.RotationGracePeriod / time.Second), "base": int(base), "u": int(U), "I": int(I)}}
			for _, rp := range periods {
				per := baseper + int64(rp)
				for _, tp := range append(append([]string{}, topics...), "tx") {
					for _, s := range seeds {
						in := time.Unix(per*isec+isec/2, 7)
						rounded := rendezvous.RoundTimePeriod(in, interval)
						next := rendezvous.NextTimePeriod(in, interval)
						val := hex.EncodeToString(rendezvous.GenerateRendezvousPointForPeriod([]byte(vfMmTopic(tp)), vfMmSeed(s), time.Unix(per*isec, 0)))
						val2 := hex.EncodeToString(rendezvous.GenerateRendezvousPointForPeriod([]byte(vfMmTopic(tp)), vfMmSeed(s), rounded))
						byTri[vfMmTri{tp, s, per}] = val
						if _, dup := byVal[val]; !dup {
							byVal[val] = vfMmTri{tp, s, per}
						}
						blk = append(blk, map[string]any{"ev": "digest", "topic": tp, "seed": s, "t": int(in.Unix()),
							"rounded": int(rounded.Unix()), "next": int(next.Unix()), "rns": rounded.Nanosecond() + next.Nanosecond(),
							"samezone": true, "val": val, "val2": val2})
					}
				}
			}
			tr.EmitBlock(blk)
		}
		instant := func(tk int64) time.Time { return time.Unix(base+tk*U+offS, offNs) }
		rendezvous.VfClockEnable(instant(0))
		peers := map[string]*vfMmPeer{}
		getPeer := func(p string) *vfMmPeer {
			if peers[p] == nil {
				ss, err := secretstore.NewInMemSecretStore(nil)
				if err != nil {
					vfInfra("secret store: %v", err)
				}
				_, pub, err := crypto.GenerateEd25519Key(rand.Reader)
				if err != nil {
					vfInfra("key: %v", err)
				}
				pid, err := peer.IDFromPublicKey(pub)
				if err != nil {
					vfInfra("peer id: %v", err)
				}
				rp := rendezvous.NewRotationInterval(interval)
				peers[p] = &vfMmPeer{rp: rp, m: NewOrbitDBMessageMarshaler(pid, ss, rp, false)}
			}
			return peers[p]
		}
		payloads := map[string][]byte{} // rotation value -> a payload a marshaler really produced
		out := []map[string]any{{"ev": "reset", "id": sc.ID}}
		tk := int64(0)
		for i, st := range sc.Steps {
			ev := map[string]any{"ev": st.Act, "i": i, "tk": int(tk)}
			switch st.Act {
			case "tick":
				tk += int64(st.X)
				rendezvous.VfClockSet(instant(tk))
				ev["tk"], ev["dt"], ev["now"] = int(tk), st.X, int(rendezvous.VfClockNow().Unix())
			case "register":
				seed, _ := st.A["seed"].(string)
				p := getPeer(st.D)
				sk, err := enc.NewSecretbox(vfMmKey(st.S, seed))
				if err != nil {
					vfInfra("secretbox: %v", err)
				}
				at := rendezvous.VfClockNow()
				p.m.RegisterGroup(vfMmTopic(st.S), group(st.S))
				p.m.RegisterSharedKeyForTopic(vfMmTopic(st.S), sk)
				p.rp.RegisterRotation(at, vfMmTopic(st.S), vfMmSeed(seed))
				ev["p"], ev["topic"], ev["seed"], ev["now"] = st.D, st.S, seed, int(at.Unix())
			case "resolve":
				p := getPeer(st.D)
				at := rendezvous.VfClockNow()
				payload, err := p.m.Marshal(&iface.MessageExchangeHeads{Address: vfMmTopic(st.S), Heads: []*entry.Entry{}})
				ev["p"], ev["topic"], ev["now"], ev["ok"] = st.D, st.S, int(at.Unix()), err == nil
				ev["val"], ev["rtopic"] = "", ""
				if err == nil {
					mh := protocoltypes.OrbitDBMessageHeads{}
					if e := proto.Unmarshal(payload, &mh); e != nil {
						vfInfra("payload of Marshal does not parse: %v", e)
					}
					val := hex.EncodeToString(mh.GetRawRotation())
					ev["val"], ev["rtopic"] = val, st.S
					payloads[val] = payload
				}
			case "accept":
				topic, _ := st.A["topic"].(string)
				seed, _ := st.A["seed"].(string)
				rp, _ := vfNum(st.A, "per")
				val, ok := byTri[vfMmTri{topic, seed, baseper + int64(rp)}]
				if !ok {
					vfInfra("script %d sends a value outside the universe", sc.ID)
				}
				payload, real := payloads[val]
				if !real {
					raw, _ := hex.DecodeString(val)
					sk, err := enc.NewSecretbox(vfMmKey(topic, seed))
					if err != nil {
						vfInfra("secretbox: %v", err)
					}
					box, _ := proto.Marshal(&protocoltypes.OrbitDBMessageHeads_Box{Address: vfMmTopic(topic), Heads: []byte("[]")})
					sealed, err := sk.Seal(box)
					if err != nil {
						vfInfra("seal: %v", err)
					}
					payload, _ = proto.Marshal(&protocoltypes.OrbitDBMessageHeads{RawRotation: raw, SealedBox: sealed})
				}
				p := getPeer(st.D)
				at := rendezvous.VfClockNow()
				var got iface.MessageExchangeHeads
				err := p.m.Unmarshal(payload, &got)
				ev["p"], ev["val"], ev["now"], ev["ok"], ev["real"] = st.D, val, int(at.Unix()), err == nil, real
				// the box opens only under the key registered for the topic the value was mapped to
				ev["rval"], ev["rtopic"] = val, ""
				if err == nil {
					ev["rtopic"] = topic
					if got.Address != vfMmTopic(topic) {
						ev["rtopic"] = "?" + got.Address
					}
				}
			default:
				vfInfra("unknown action %q", st.Act)
			}
			rendezvous.VfClockRunDue()
			out = append(out, ev)
		}
		rendezvous.VfClockDisable()
		tr.EmitBlock(out)
	}
	t.Logf("VERIF-DONE marshaler scripts=%d", len(scripts))
}
