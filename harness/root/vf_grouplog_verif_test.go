//go:build verif

package weshnet

// Driver for specs/GroupLog.tla (C04, C07, C13): account-group metadata operations by two
// devices of one account, delivery of entries head by head, reopen, listings - on real
// orbit-db stores (vf_replica_verif_test.go).  After every step the state every replica
// REPORTS through the MetadataStore getters is recorded together with the set of entries
// it holds (abstract names e1, e2, ... in creation order).

import (
	"bytes"
	"encoding/json"
	"context"
	crand "crypto/rand"
	"fmt"
	"sort"
	"sync"
	"testing"

	"github.com/libp2p/go-libp2p/core/crypto"

	ipfslog "berty.tech/go-ipfs-log"
	"berty.tech/go-orbit-db/stores/operation"
	"berty.tech/weshnet/v2/pkg/protocoltypes"
)

type vfGLContact struct {
	pk   crypto.PubKey
	raw  []byte
	seed []byte
	meta []byte
}

var vfContactStateNames = map[protocoltypes.ContactState]string{
	protocoltypes.ContactState_ContactStateUndefined: "U",
	protocoltypes.ContactState_ContactStateToRequest: "T",
	protocoltypes.ContactState_ContactStateReceived:  "R",
	protocoltypes.ContactState_ContactStateAdded:     "A",
	protocoltypes.ContactState_ContactStateRemoved:   "X",
	protocoltypes.ContactState_ContactStateDiscarded: "D",
	protocoltypes.ContactState_ContactStateBlocked:   "B",
}

var vfEvKinds = map[protocoltypes.EventType]string{
	protocoltypes.EventType_EventTypeAccountContactRequestEnabled:           "en",
	protocoltypes.EventType_EventTypeAccountContactRequestDisabled:          "dis",
	protocoltypes.EventType_EventTypeAccountContactRequestReferenceReset:    "rs",
	protocoltypes.EventType_EventTypeAccountContactRequestOutgoingEnqueued:  "enq",
	protocoltypes.EventType_EventTypeAccountContactRequestOutgoingSent:      "sent",
	protocoltypes.EventType_EventTypeAccountContactRequestIncomingReceived:  "recv",
	protocoltypes.EventType_EventTypeAccountContactRequestIncomingDiscarded: "disc",
	protocoltypes.EventType_EventTypeAccountContactRequestIncomingAccepted:  "acc",
	protocoltypes.EventType_EventTypeAccountContactBlocked:                  "blk",
	protocoltypes.EventType_EventTypeAccountContactUnblocked:                "unb",
	protocoltypes.EventType_EventTypeAccountGroupJoined:                     "join",
	protocoltypes.EventType_EventTypeAccountGroupLeft:                       "leave",
}

func vfGroupLogRun(t testing.TB, w *vfRWorld, sc vfScript) []map[string]any {
	ctx := context.Background()
	w.reps = map[string]*vfReplica{}
	if wk, _ := sc.Cfg["world"].(string); wk == "contact" || wk == "multi" {
		return vfGroupLogRun2(t, w, sc, wk)
	}
	a1 := w.AddDevice("a1", "")
	a2 := w.AddDevice("a2", "a1")
	g := a1.AccountGroup()
	reps := map[string]*vfReplica{"a1": a1, "a2": a2}
	for _, r := range reps {
		r.OpenGroup(g)
	}
	gid := g.GroupIDAsString()
	ms := func(d string) *MetadataStore { return reps[d].gcs[gid].MetadataStore() }
	defer func() {
		for _, r := range reps {
			for _, gc := range r.gcs {
				gc.Close()
			}
			r.db.Close()
		}
	}()
	msgMode := sc.Cfg["log"] == "message"
	if msgMode {
		// every device registers the other's chain key so that listings can open every message
		for _, x := range []string{"a1", "a2"} {
			for _, y := range []string{"a1", "a2"} {
				if x == y {
					continue
				}
				omdY, err := reps[y].ss.GetOwnMemberDeviceForGroup(g)
				if err != nil {
					vfInfra("member device: %v", err)
				}
				omdX, _ := reps[x].ss.GetOwnMemberDeviceForGroup(g)
				ann, err := reps[y].ss.GetShareableChainKey(ctx, g, omdX.Member())
				if err != nil {
					vfInfra("announcement: %v", err)
				}
				if err := reps[x].ss.RegisterChainKey(ctx, g, omdY.Device(), ann); err != nil {
					vfInfra("register: %v", err)
				}
			}
		}
	}
	nc, _ := vfNum(sc.Cfg, "contacts")
	ng, _ := vfNum(sc.Cfg, "groups")
	var contacts []*vfGLContact
	for i := 0; i < nc; i++ {
		_, pk, _ := crypto.GenerateEd25519Key(crand.Reader)
		raw, _ := pk.Raw()
		seed := make([]byte, 32)
		crand.Read(seed)
		contacts = append(contacts, &vfGLContact{pk: pk, raw: raw, seed: seed, meta: []byte(fmt.Sprintf("meta-c%d", i+1))})
	}
	var groups []*protocoltypes.Group
	for i := 0; i < ng; i++ {
		mg, _, err := protocoltypes.NewGroupMultiMember()
		if err != nil {
			vfInfra("group: %v", err)
		}
		groups = append(groups, mg)
	}
	// every enqueue / incoming request carries its own seed and (every second one) its own metadata,
	// named s<i> / m<i> after the step that sent them ("-" = none)
	seedNames := map[string]string{}
	metaNames := map[string]string{}
	opSeed := func(i int) []byte {
		b := make([]byte, 32)
		crand.Read(b)
		seedNames[string(b)] = fmt.Sprintf("s%d", i)
		return b
	}
	opMeta := func(i int) []byte {
		if i%2 == 1 {
			return nil
		}
		b := []byte(fmt.Sprintf("meta-of-step-%d-%d", sc.ID, i))
		metaNames[string(b)] = fmt.Sprintf("m%d", i)
		return b
	}
	nameOr := func(m map[string]string, b []byte) string {
		if len(b) == 0 {
			return "-"
		}
		if v, ok := m[string(b)]; ok {
			return v
		}
		return "?"
	}
	names := map[string]int{} // entry hash -> creation index
	byName := map[int]ipfslog.Entry{}
	seeds := map[string]int{} // rendezvous seed (hex) -> entry that set it
	mss := func(d string) *MessageStore { return reps[d].gcs[gid].MessageStore() }
	nameSet := func(d string) []int {
		out := []int{}
		ids := vfEntryIDs(ms(d))
		if msgMode {
			ids = vfEntryIDs(mss(d))
		}
		for _, id := range ids {
			if n, ok := names[id]; ok {
				out = append(out, n)
			} else {
				out = append(out, -1)
			}
		}
		sort.Ints(out)
		return out
	}
	report := func(d string) map[string]any {
		m := ms(d)
		en, sh := m.GetIncomingContactRequestsStatus()
		sw := "none"
		// the getter folds "never set" and "disabled" together; read the index flag for the distinction
		if idx, ok := m.Index().(*metadataStoreIndex); ok {
			idx.lock.RLock()
			if idx.contactRequestEnabled != nil {
				if *idx.contactRequestEnabled {
					sw = "en"
				} else {
					sw = "dis"
				}
			}
			idx.lock.RUnlock()
		}
		seed := 0
		if sh != nil && len(sh.PublicRendezvousSeed) > 0 {
			if n, ok := seeds[fmt.Sprintf("%x", sh.PublicRendezvousSeed)]; ok {
				seed = n
			} else {
				seed = -1
			}
		}
		cs := map[string]any{}
		cseed := map[string]any{}
		cmeta := map[string]any{}
		lc := m.ListContacts()
		for i, c := range contacts {
			st := "U"
			if ac, ok := lc[string(c.raw)]; ok {
				st = vfContactStateNames[ac.state]
			}
			// the per-status listing must agree with the full listing
			for stv, nm := range vfContactStateNames {
				if stv == protocoltypes.ContactState_ContactStateUndefined {
					continue
				}
				for _, x := range m.ListContactsByStatus(stv) {
					if bytes.Equal(x.Pk, c.raw) && nm != st {
						st = st + "/" + nm
					}
				}
			}
			cs[fmt.Sprintf("c%d", i+1)] = st
			if ac, ok := lc[string(c.raw)]; ok && ac.contact != nil {
				cseed[fmt.Sprintf("c%d", i+1)] = nameOr(seedNames, ac.contact.PublicRendezvousSeed)
				cmeta[fmt.Sprintf("c%d", i+1)] = nameOr(metaNames, ac.contact.Metadata)
			} else {
				cseed[fmt.Sprintf("c%d", i+1)] = "-"
				cmeta[fmt.Sprintf("c%d", i+1)] = "-"
			}
		}
		gj := map[string]any{}
		joined := m.ListMultiMemberGroups()
		for i, mg := range groups {
			v := "no"
			for _, x := range joined {
				if bytes.Equal(x.PublicKey, mg.PublicKey) {
					v = "join"
				}
			}
			gj[fmt.Sprintf("g%d", i+1)] = v
		}
		view, _ := json.Marshal([]any{sw, seed, cs, gj, cseed, cmeta})
		return map[string]any{"set": nameSet(d), "sw": sw, "en": en, "seed": seed, "cs": cs, "gj": gj, "cseed": cseed, "cmeta": cmeta, "view": string(view)}
	}
	out := []map[string]any{{"ev": "reset", "id": sc.ID}}
	for i, st := range sc.Steps {
		ev := map[string]any{"ev": st.Act, "d": st.D, "i": i}
		switch st.Act {
		case "op":
			m := ms(st.D)
			before := len(vfEntryIDs(m))
			var op operation.Operation
			var err error
			ev["s"], ev["x"] = st.S, st.X
			if msgMode {
				before = len(vfEntryIDs(mss(st.D)))
			}
			switch st.S {
			case "msg":
				op, err = mss(st.D).AddMessage(ctx, []byte(fmt.Sprintf("message %d of script %d", i, sc.ID)))
			case "en":
				op, err = m.ContactRequestEnable(ctx)
			case "dis":
				op, err = m.ContactRequestDisable(ctx)
			case "rs":
				op, err = m.ContactRequestReferenceReset(ctx)
			case "enq":
				c := contacts[st.X-1]
				sd, mt := opSeed(i), opMeta(i)
				ev["cseed"], ev["cmeta"] = nameOr(seedNames, sd), nameOr(metaNames, mt)
				op, err = m.ContactRequestOutgoingEnqueue(ctx, &protocoltypes.ShareableContact{Pk: c.raw, PublicRendezvousSeed: sd, Metadata: mt}, []byte("own"))
			case "enq!noseed", "enq!shortseed", "enq!badkey", "enq!self", "recv!self", "recv!shortseed", "recv!noseed", "blk!self":
				// malformed / own-account variants (C07): same calls, doctored arguments
				c := contacts[st.X-1]
				sd, mt := opSeed(i), opMeta(i)
				sh := &protocoltypes.ShareableContact{Pk: c.raw, PublicRendezvousSeed: sd, Metadata: mt}
				ev["cseed"], ev["cmeta"] = nameOr(seedNames, sd), nameOr(metaNames, mt)
				if st.S == "recv!noseed" {
					ev["cseed"] = "-"
				}
				own := vfRawPK(m.memberDevice.Member())
				switch st.S[4:] {
				case "noseed", "!noseed":
					sh.PublicRendezvousSeed = nil
				case "shortseed", "!shortseed":
					sh.PublicRendezvousSeed = sd[:16]
				case "badkey":
					sh.Pk = c.raw[:16]
				case "self", "!self":
					sh.Pk = own
				}
				switch st.S[:3] {
				case "enq":
					op, err = m.ContactRequestOutgoingEnqueue(ctx, sh, []byte("own"))
				case "rec":
					op, err = m.ContactRequestIncomingReceived(ctx, sh)
				case "blk":
					op, err = m.ContactBlock(ctx, m.memberDevice.Member())
				}
			case "sent":
				op, err = m.ContactRequestOutgoingSent(ctx, contacts[st.X-1].pk)
			case "recv":
				c := contacts[st.X-1]
				sd, mt := opSeed(i), opMeta(i)
				ev["cseed"], ev["cmeta"] = nameOr(seedNames, sd), nameOr(metaNames, mt)
				op, err = m.ContactRequestIncomingReceived(ctx, &protocoltypes.ShareableContact{Pk: c.raw, PublicRendezvousSeed: sd, Metadata: mt})
			case "disc":
				op, err = m.ContactRequestIncomingDiscard(ctx, contacts[st.X-1].pk)
			case "acc":
				op, err = m.ContactRequestIncomingAccept(ctx, contacts[st.X-1].pk)
			case "blk":
				op, err = m.ContactBlock(ctx, contacts[st.X-1].pk)
			case "unb":
				op, err = m.ContactUnblock(ctx, contacts[st.X-1].pk)
			case "join":
				op, err = m.GroupJoin(ctx, groups[st.X-1])
			case "leave":
				gpk, _ := groups[st.X-1].GetPubKey()
				op, err = m.GroupLeave(ctx, gpk)
			default:
				vfInfra("unknown op %q", st.S)
			}
			after := len(vfEntryIDs(m))
			if msgMode {
				after = len(vfEntryIDs(mss(st.D)))
			}
			ev["ok"] = err == nil
			ev["grew"] = after - before
			ev["before"] = func() []int { s := nameSet(st.D); return s }()
			if err == nil && op != nil {
				e := op.GetEntry()
				n := len(names) + 1
				names[e.GetHash().String()] = n
				byName[n] = e
				ev["e"] = n
				ev["before"] = func() []int {
					out := []int{}
					for _, x := range nameSet(st.D) {
						if x != n {
							out = append(out, x)
						}
					}
					return out
				}()
				// what was appended (decoded from the entry itself, not from the index)
				if msgMode {
					ev["evk"] = "msg"
				} else if meta, evt, oerr := vfOpenMetadataEntry(m.OpLog(), e, g); oerr == nil {
					ev["type"] = meta.Metadata.EventType.String()
					ev["evk"] = vfEvKinds[meta.Metadata.EventType]
					if rs, ok := evt.(*protocoltypes.AccountContactRequestReferenceReset); ok {
						seeds[fmt.Sprintf("%x", rs.PublicRendezvousSeed)] = n
					}
				}
			}
		case "deliver":
			e, ok := byName[st.X]
			if !ok {
				ev["skip"] = true
				break
			}
			ev["x"] = st.X
			if msgMode {
				var src *MessageStore
				for _, d := range []string{"a1", "a2"} {
					if _, has := mss(d).OpLog().Get(e.GetHash()); has {
						src = mss(d)
					}
				}
				vfSyncTo(ctx, mss(st.D), []ipfslog.Entry{e}, vfPast(src, e.GetHash()))
				break
			}
			var src *MetadataStore
			for _, d := range []string{"a1", "a2"} {
				if _, has := ms(d).OpLog().Get(e.GetHash()); has {
					src = ms(d)
				}
			}
			want := vfPast(src, e.GetHash())
			vfSyncTo(ctx, ms(st.D), []ipfslog.Entry{e}, want)
		case "rdeliver":
			e, ok := byName[st.X]
			if !ok {
				ev["skip"] = true
				break
			}
			ev["x"] = st.X
			if msgMode {
				vfRawDeliver(ctx, mss(st.D), e)
			} else {
				vfRawDeliver(ctx, ms(st.D), e)
			}
		case "reopen":
			reps[st.D].Reopen(g)
		case "list":
			m := ms(st.D)
			id := func(n int) []byte {
				if n == 0 {
					return nil
				}
				if e, ok := byName[n]; ok {
					return e.GetHash().Bytes()
				}
				return []byte("unknown-id")
			}
			ev["since"], ev["until"], ev["rev"] = st.X, st.Y, st.S == "rev"
			got := []int{}
			nameOf := func(evid []byte) int {
				for _, nn := range names {
					if bytes.Equal(byName[nn].GetHash().Bytes(), evid) {
						return nn
					}
				}
				return -1
			}
			if msgMode {
				ch, err := mss(st.D).ListEvents(ctx, id(st.X), id(st.Y), st.S == "rev")
				ev["ok"] = err == nil
				if err == nil {
					for e := range ch {
						got = append(got, nameOf(e.EventContext.Id))
					}
				}
				ev["out"] = got
				ev["has"] = nameSet(st.D)
				full := []int{}
				if fch, ferr := mss(st.D).ListEvents(ctx, nil, nil, false); ferr == nil {
					for e := range fch {
						full = append(full, nameOf(e.EventContext.Id))
					}
				}
				ev["full"] = full
				break
			}
			ch, err := m.ListEvents(ctx, id(st.X), id(st.Y), st.S == "rev")
			ev["ok"] = err == nil
			if err == nil {
				for e := range ch {
					n := -1
					for h, nn := range names {
						if bytes.Equal(byName[nn].GetHash().Bytes(), e.EventContext.Id) {
							n = nn
						}
						_ = h
					}
					got = append(got, n)
				}
			}
			ev["out"] = got
			ev["has"] = nameSet(st.D)
			full := []int{}
			if fch, ferr := m.ListEvents(ctx, nil, nil, false); ferr == nil {
				for e := range fch {
					full = append(full, nameOf(e.EventContext.Id))
				}
			}
			ev["full"] = full
		default:
			vfInfra("unknown action %q", st.Act)
		}
		ev["st"] = map[string]any{"a1": report("a1"), "a2": report("a2")}
		out = append(out, ev)
	}
	return out
}

func TestVerifGroupLog(t *testing.T) {
	scripts := vfLoadScripts(t)
	tr := vfOpenTrace(t)
	defer tr.Close()
	// go-ipfs-log initialises its CBOR atlas lazily without synchronisation: open one store serially
	// before the workers start, otherwise concurrent first uses race ("missing an atlas entry")
	{
		w0 := vfNewRWorld(t)
		r0 := w0.AddDevice("warm", "")
		gc0 := r0.OpenGroup(r0.AccountGroup())
		if _, err := gc0.MetadataStore().ContactRequestEnable(context.Background()); err != nil {
			vfInfra("warm-up write: %v", err)
		}
		gc0.Close()
		r0.db.Close()
	}
	var wg sync.WaitGroup
	ch := make(chan vfScript, 16)
	for k := 0; k < vfEnvInt("VERIF_WORKERS", 8); k++ {
		wg.Add(1)
		go func() {
			defer wg.Done()
			w := vfNewRWorld(t) // one IPFS node per worker; fresh accounts per script
			for sc := range ch {
				tr.EmitBlock(vfGroupLogRun(t, w, sc))
			}
		}()
	}
	for _, sc := range scripts {
		ch <- sc
	}
	close(ch)
	wg.Wait()
	t.Logf("VERIF-DONE scripts=%d events=%d", len(scripts), tr.n)
}

func vfRawPK(k crypto.PubKey) []byte { b, _ := k.Raw(); return b }
