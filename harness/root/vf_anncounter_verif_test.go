//go:build verif

package weshnet

// C05, exactness and completeness at ANY counter, through the store path: a sender that has already
// published c messages announces its chain key to a member (MetadataStore.SendSecret on a real log);
// the recipient's replica receives the entry, the group context's own filter
// (getAndFilterGroupDeviceChainKeyAddedPayload, metadataStoreListSecrets) hands the announcement over, the
// secret store registers it, and exactly the messages sealed after it open.  Verdict: MonAnnCounter.tla.

import (
	"context"
	"testing"

	"github.com/ipfs/go-cid"
	mh "github.com/multiformats/go-multihash"
	"google.golang.org/protobuf/proto"

	ipfslog "berty.tech/go-ipfs-log"
	"berty.tech/weshnet/v2/pkg/protocoltypes"
)

func vfacCID(b []byte) cid.Cid {
	h, _ := mh.Sum(b, mh.SHA2_256, -1)
	return cid.NewCidV1(cid.Raw, h)
}

func vfAnnCounterRun(t *testing.T, sc vfScript) []map[string]any {
	ctx := context.Background()
	count, _ := vfNum(sc.Cfg, "count")
	out := []map[string]any{{"ev": "reset", "id": sc.ID}}
	w := vfNewRWorld(t)
	a := w.AddDevice("a1", "")
	b := w.AddDevice("b1", "")
	g, _, err := NewGroupMultiMember()
	if err != nil {
		vfInfra("group: %v", err)
	}
	ga, gb := a.OpenGroup(g), b.OpenGroup(g)
	if _, err := ga.MetadataStore().AddDeviceToGroup(ctx); err != nil {
		vfInfra("adddev: %v", err)
	}
	if _, err := gb.MetadataStore().AddDeviceToGroup(ctx); err != nil {
		vfInfra("adddev: %v", err)
	}
	// b's announcement of itself reaches a (so that a knows the member it announces to)
	vfSyncTo(ctx, ga.MetadataStore(), vfHeads(gb.MetadataStore()), map[string]bool{})
	var last []byte
	for i := 0; i < count; i++ {
		if last, err = a.ss.SealEnvelope(ctx, g, []byte{byte(i)}); err != nil {
			vfInfra("seal: %v", err)
		}
	}
	op, err := ga.MetadataStore().SendSecret(ctx, gb.MemberPubKey())
	ev := map[string]any{"ev": "anncounter", "count": count, "sent": err == nil && op != nil}
	if err != nil || op == nil {
		return append(out, ev)
	}
	payload, _ := proto.Marshal(&protocoltypes.EncryptedMessage{Plaintext: []byte("after")})
	next, err := a.ss.SealEnvelope(ctx, g, payload)
	if err != nil {
		vfInfra("seal next: %v", err)
	}
	// the entry reaches b's replica
	e := op.GetEntry()
	vfSyncTo(ctx, gb.MetadataStore(), []ipfslog.Entry{e}, map[string]bool{e.GetHash().String(): true})
	// 1. the group context's filter on the entry as b opens it
	meta, _, oerr := vfOpenMetadataEntry(gb.MetadataStore().OpLog(), e, g)
	ev["opened"] = oerr == nil
	if oerr == nil {
		dev, enc, ferr := getAndFilterGroupDeviceChainKeyAddedPayload(meta.Metadata, gb.MemberPubKey())
		ev["filtered"] = ferr == nil
		if ferr == nil {
			ev["sender"] = dev.Equals(ga.DevicePubKey())
			rerr := b.ss.RegisterChainKey(ctx, g, dev, enc)
			ev["registered"] = rerr == nil
		}
	}
	// 2. the listing used when a group is (re)activated
	listed := false
	for pk := range gb.metadataStoreListSecrets() {
		if pk.Equals(ga.DevicePubKey()) {
			listed = true
		}
	}
	ev["listed"] = listed
	// 3. exactly the subsequent messages open
	openAt := func(env []byte) bool {
		menv, hdr, err := b.ss.OpenEnvelopeHeaders(env, g)
		if err != nil {
			return false
		}
		gpk, _ := g.GetPubKey()
		_, err = b.ss.OpenEnvelopePayload(ctx, menv, hdr, gpk, gb.DevicePubKey(), vfacCID(env))
		return err == nil
	}
	ev["nextopens"] = openAt(next)
	ev["prevopens"] = count > 0 && openAt(last)
	return append(out, ev)
}

func TestVerifAnnCounter(t *testing.T) {
	scripts := vfLoadScripts(t)
	tr := vfOpenTrace(t)
	defer tr.Close()
	for _, sc := range scripts {
		tr.EmitBlock(vfAnnCounterRun(t, sc))
	}
	t.Logf("VERIF-DONE scripts=%d events=%d", len(scripts), tr.n)
}
