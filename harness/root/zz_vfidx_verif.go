//go:build verif

package weshnet

// Snapshot recorder for the metadata index, injected by the build overlay (never committed to
// the repository).  checks/index_traces.py renames metadataStoreIndex.UpdateIndex to
// vfUpdateIndexOrig in a COPY of store_metadata_index.go; the method below takes its place.
// When VERIF_IDX_TRACE names a file, every index update of every group of every peer in the
// process appends one JSON line: the set of entries the index has handled and everything the
// index reports, both read under the index's own lock (so they belong to the same update), plus
// whether that set is the whole log.  The repository's own multi-peer tests are then run
// unchanged and TLC checks the recorded snapshots against MonIndexSnap.tla (C04: same entry
// set => same reported state, on any peer, at any time).

import (
	"encoding/hex"
	"encoding/json"
	"os"
	"sort"
	"sync"

	ipfslog "berty.tech/go-ipfs-log"
)

var (
	vfIdxMu   sync.Mutex
	vfIdxFile *os.File
	vfIdxSeq  int
	vfIdxIDs  = map[*metadataStoreIndex]int{}
)

func (m *metadataStoreIndex) UpdateIndex(log ipfslog.Log, entries []ipfslog.Entry) error {
	err := m.vfUpdateIndexOrig(log, entries)
	if os.Getenv("VERIF_IDX_TRACE") != "" {
		vfIdxRecord(m, log, err)
	}
	return err
}

func vfHex(b []byte) string { return hex.EncodeToString(b) }

func vfIdxRecord(m *metadataStoreIndex, log ipfslog.Log, uerr error) {
	ev := map[string]any{"ev": "snap", "uerr": uerr != nil}

	m.lock.RLock()
	handled := make([]string, 0, len(m.handledEvents))
	for h := range m.handledEvents {
		handled = append(handled, h)
	}
	sort.Strings(handled)
	ev["set"] = handled
	ev["g"] = vfHex(m.group.PublicKey)
	ev["gt"] = m.group.GroupType.String()

	members := map[string][]string{}
	for k, devs := range m.members {
		l := []string{}
		for _, d := range devs {
			if raw, err := d.Device().Raw(); err == nil {
				l = append(l, vfHex(raw))
			}
		}
		sort.Strings(l)
		members[vfHex([]byte(k))] = l
	}
	devices := map[string]string{}
	for k, d := range m.devices {
		if raw, err := d.Member().Raw(); err == nil {
			devices[vfHex([]byte(k))] = vfHex(raw)
		}
	}
	admins := []string{}
	for k := range m.admins {
		if raw, err := k.Raw(); err == nil {
			admins = append(admins, vfHex(raw))
		}
	}
	sort.Strings(admins)
	contacts := map[string][]string{}
	for k, c := range m.contacts {
		seed, meta := "", ""
		if c.contact != nil {
			seed, meta = vfHex(c.contact.PublicRendezvousSeed), vfHex(c.contact.Metadata)
		}
		contacts[vfHex([]byte(k))] = []string{c.state.String(), seed, meta}
	}
	groups := map[string]int{}
	for k, g := range m.groups {
		groups[vfHex([]byte(k))] = int(g.state)
	}
	sw := "unset"
	if m.contactRequestEnabled != nil {
		sw = "off"
		if *m.contactRequestEnabled {
			sw = "on"
		}
	}
	creds := []string{}
	for _, c := range m.verifiedCredentials {
		b, _ := json.Marshal(c)
		creds = append(creds, string(b))
	}
	// what every replica of the group must agree on
	view, _ := json.Marshal([]any{members, devices, admins, contacts, groups, sw, vfHex(m.contactRequestSeed), creds})
	// what depends on who is looking (the "other" member of a contact group, secrets this device sent)
	sent := []string{}
	for k := range m.sentSecrets {
		sent = append(sent, vfHex([]byte(k)))
	}
	sort.Strings(sent)
	own := ""
	if m.ownMemberDevice != nil {
		if raw, err := m.ownMemberDevice.Device().Raw(); err == nil {
			own = vfHex(raw)
		}
	}
	rel, _ := json.Marshal([]any{vfHex(m.otherAliasKey), sent})
	m.lock.RUnlock()

	ev["view"] = string(view)
	ev["own"] = own
	ev["rel"] = string(rel)
	// the log only grows and handled entries are entries of the log: equal sizes => the handled
	// set IS the log's entry set (read after the update; a log that grew meanwhile only makes
	// the snapshot "incomplete", which the monitor skips)
	ev["complete"] = log.Len() == len(handled)

	vfIdxMu.Lock()
	defer vfIdxMu.Unlock()
	if vfIdxFile == nil {
		f, err := os.OpenFile(os.Getenv("VERIF_IDX_TRACE"), os.O_CREATE|os.O_WRONLY|os.O_APPEND, 0o644)
		if err != nil {
			return
		}
		vfIdxFile = f
	}
	id, ok := vfIdxIDs[m]
	if !ok {
		id = len(vfIdxIDs) + 1
		vfIdxIDs[m] = id
	}
	vfIdxSeq++
	ev["seq"] = vfIdxSeq
	ev["idx"] = id
	b, _ := json.Marshal(ev)
	_, _ = vfIdxFile.Write(append(b, '\n'))
}
