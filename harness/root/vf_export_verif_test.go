//go:build verif

package weshnet

// Driver for specs/ExportRestore.tla (C20): a real service builds an account history (account
// group metadata, a contact group, a multi-member group with metadata and messages), exports
// it through the ServiceExportData stream at the points the script names, the driver rewrites
// the archive as the script's abstract mutation says, RestoreAccountExport loads it into a
// fresh in-memory node that has no network, and the groups are then opened normally
// (WeshOrbitDB.OpenGroup).  Recorded: what the export contained, what was fed to the restore,
// how the restore ended (ok / err / timeout / panic) and, for source and restored node alike,
// the account keys, the raw log entry ids, heads, log order and the state the stores report.
// Observed values only.  Self-contained (the state projection is the one of vf_grouplog_verif_test.go's `report`).

import (
	"archive/tar"
	"bytes"
	"context"
	crand "crypto/rand"
	"crypto/sha256"
	"encoding/base64"
	"encoding/hex"
	"encoding/json"
	"fmt"
	"io"
	"os"
	"runtime/debug"
	"sort"
	"strings"
	"sync"
	"testing"
	"time"

	"github.com/ipfs/go-cid"
	cbornode "github.com/ipfs/go-ipld-cbor"
	"github.com/ipfs/go-datastore"
	dssync "github.com/ipfs/go-datastore/sync"
	"github.com/libp2p/go-libp2p/core/crypto"
	mocknet "github.com/libp2p/go-libp2p/p2p/net/mock"
	mh "github.com/multiformats/go-multihash"
	"go.uber.org/zap"
	"google.golang.org/protobuf/proto"

	ipfslog "berty.tech/go-ipfs-log"
	orbitdb "berty.tech/go-orbit-db"
	"berty.tech/go-orbit-db/iface"
	"berty.tech/go-orbit-db/pubsub/pubsubraw"
	"berty.tech/go-orbit-db/stores/operation"
	"berty.tech/weshnet/v2/pkg/ipfsutil"
	"berty.tech/weshnet/v2/pkg/protocoltypes"
	"berty.tech/weshnet/v2/pkg/secretstore"
	"berty.tech/weshnet/v2/pkg/tinder"
)

// ------------------------------------------------------------------ testing.TB with owned cleanups

type vfXTB struct {
	testing.TB
	mu sync.Mutex
	cl []func()
}

func (t *vfXTB) Helper() {}
func (t *vfXTB) Cleanup(f func()) {
	t.mu.Lock()
	t.cl = append(t.cl, f)
	t.mu.Unlock()
}
func (t *vfXTB) Errorf(format string, a ...any) { vfInfra("setup: "+format, a...) }
func (t *vfXTB) Fatalf(format string, a ...any) { vfInfra("setup: "+format, a...) }
func (t *vfXTB) Fatal(a ...any)                 { vfInfra("setup: %s", fmt.Sprint(a...)) }
func (t *vfXTB) FailNow()                       { vfInfra("setup failed") }
func (t *vfXTB) Log(a ...any)                   {}
func (t *vfXTB) Logf(string, ...any)            {}
func (t *vfXTB) runCleanups() {
	t.mu.Lock()
	cl := t.cl
	t.cl = nil
	t.mu.Unlock()
	done := make(chan struct{})
	go func() {
		defer close(done)
		for i := len(cl) - 1; i >= 0; i-- {
			func() { defer func() { _ = recover() }(); cl[i]() }()
		}
	}()
	select {
	case <-done:
	case <-time.After(60 * time.Second):
		vfInfra("node cleanup hung")
	}
}

// ------------------------------------------------------------------ small helpers (same projections as the C04 driver)

type vfXContact struct {
	pk   crypto.PubKey
	raw  []byte
	seed []byte
	meta []byte
}

var vfXContactStateNames = map[protocoltypes.ContactState]string{
	protocoltypes.ContactState_ContactStateUndefined: "U",
	protocoltypes.ContactState_ContactStateToRequest: "T",
	protocoltypes.ContactState_ContactStateReceived:  "R",
	protocoltypes.ContactState_ContactStateAdded:     "A",
	protocoltypes.ContactState_ContactStateRemoved:   "X",
	protocoltypes.ContactState_ContactStateDiscarded: "D",
	protocoltypes.ContactState_ContactStateBlocked:   "B",
}

var vfXEvKinds = map[protocoltypes.EventType]string{
	protocoltypes.EventType_EventTypeAccountContactRequestEnabled:           "en",
	protocoltypes.EventType_EventTypeAccountContactRequestDisabled:          "dis",
	protocoltypes.EventType_EventTypeAccountContactRequestReferenceReset:    "rs",
	protocoltypes.EventType_EventTypeAccountContactRequestOutgoingEnqueued:  "enq",
	protocoltypes.EventType_EventTypeAccountContactRequestOutgoingSent:      "sent",
	protocoltypes.EventType_EventTypeAccountContactRequestIncomingReceived:  "recv",
	protocoltypes.EventType_EventTypeAccountContactRequestIncomingDiscarded: "disc",
	protocoltypes.EventType_EventTypeAccountContactRequestIncomingAccepted:  "acc",
	protocoltypes.EventType_EventTypeAccountContactBlocked:                  "blk",
	protocoltypes.EventType_EventTypeAccountContactUnblocked:                "unb",
	protocoltypes.EventType_EventTypeAccountGroupJoined:                     "join",
	protocoltypes.EventType_EventTypeAccountGroupLeft:                       "leave",
}

func vfXRawPK(k crypto.PubKey) []byte { b, _ := k.Raw(); return b }

func vfXHeads(s iface.Store) []ipfslog.Entry { return s.OpLog().Heads().Slice() }

func vfXEntryIDs(s iface.Store) []string {
	out := []string{}
	for _, e := range s.OpLog().GetEntries().Slice() {
		out = append(out, e.GetHash().String())
	}
	return out
}

func vfXValueIDs(s iface.Store) []string {
	out := []string{}
	for _, e := range s.OpLog().Values().Slice() {
		out = append(out, e.GetHash().String())
	}
	return out
}

// ------------------------------------------------------------------ archive files

type vfXFile struct {
	name string
	data []byte
}

func vfXReadTar(b []byte) []vfXFile {
	tr := tar.NewReader(bytes.NewReader(b))
	var out []vfXFile
	for {
		h, err := tr.Next()
		if err == io.EOF {
			return out
		}
		if err != nil {
			vfInfra("exported archive is not a readable tar: %v", err)
		}
		d, err := io.ReadAll(tr)
		if err != nil {
			vfInfra("exported archive is not a readable tar: %v", err)
		}
		out = append(out, vfXFile{h.Name, d})
	}
}

// vfXWriteTar writes the files; cut > 0 removes that many bytes from the end of the LAST file's
// data region (the archive then ends in the middle of a file and has no end marker);
// noEnd leaves the end-of-archive marker out (the archive ends on a file boundary).
func vfXWriteTar(files []vfXFile, noEnd bool, cut int) []byte {
	var buf bytes.Buffer
	tw := tar.NewWriter(&buf)
	for _, f := range files {
		if err := tw.WriteHeader(&tar.Header{Typeflag: tar.TypeReg, Name: f.name, Mode: 0o600, Size: int64(len(f.data))}); err != nil {
			vfInfra("tar: %v", err)
		}
		if _, err := tw.Write(f.data); err != nil {
			vfInfra("tar: %v", err)
		}
	}
	if err := tw.Flush(); err != nil {
		vfInfra("tar: %v", err)
	}
	if noEnd || cut > 0 {
		b := append([]byte{}, buf.Bytes()...)
		if cut > 0 && len(files) > 0 {
			last := len(files[len(files)-1].data)
			padded := (last + 511) / 512 * 512
			if cut > last {
				cut = last
			}
			b = b[:len(b)-padded+last-cut]
		}
		return b
	}
	if err := tw.Close(); err != nil {
		vfInfra("tar: %v", err)
	}
	return buf.Bytes()
}

// ------------------------------------------------------------------ world

type vfXGroup struct {
	name string // "acct", "ct", "mm"
	g    *protocoltypes.Group
}

type vfXWorld struct {
	tb       *vfXTB
	ctx      context.Context
	cancel   context.CancelFunc
	tp       *TestingProtocol
	s        *service
	mn       mocknet.Mocknet
	closeSvc func()
	rnd      interface{ Intn(int) int }

	groups   []*vfXGroup // known groups in fixed order (acct first)
	contacts []*vfXContact
	joinable []*protocoltypes.Group // groups for the account-level join/leave operations (never opened)

	names map[string]int // entry cid -> abstract name (order of first observation on the source)
	seeds map[string]int
	pks   map[string]string // raw public key (hex) -> abstract name (order of first observation)

	// last export
	raw     []byte
	files   []vfXFile
	srcSnap map[string]any
	srcKeys map[string]any
	nExport int

	progress func(map[string]any) // called right before a restore runs (the process may not survive it)
}

var vfXSkip = func() map[string]bool {
	m := map[string]bool{}
	for _, k := range strings.Split(os.Getenv("VERIF_SKIP"), ",") {
		if k != "" {
			m[k] = true
		}
	}
	return m
}()

func vfXNewWorld(t testing.TB, salt int64) *vfXWorld {
	tb := &vfXTB{TB: t}
	ctx, cancel := context.WithCancel(context.Background())
	mn := mocknet.New()
	tp, cleanup := NewTestingProtocol(ctx, tb, &TestingOpts{Mocknet: mn, DiscoveryServer: tinder.NewMockDriverServer(), Logger: zap.NewNop()}, nil)
	w := &vfXWorld{tb: tb, ctx: ctx, cancel: cancel, tp: tp, s: tp.Service.(*service), mn: mn, closeSvc: cleanup, rnd: vfRand(salt),
		names: map[string]int{}, seeds: map[string]int{}, pks: map[string]string{}}
	ag := w.s.getAccountGroup()
	if ag == nil {
		vfInfra("no account group on a fresh service")
	}
	w.groups = []*vfXGroup{{"acct", ag.Group()}}
	for i := 0; i < 2; i++ {
		_, pk, _ := crypto.GenerateEd25519Key(crand.Reader)
		raw, _ := pk.Raw()
		seed := make([]byte, 32)
		crand.Read(seed)
		w.contacts = append(w.contacts, &vfXContact{pk: pk, raw: raw, seed: seed, meta: []byte(fmt.Sprintf("meta-c%d", i+1))})
	}
	mg, _, err := protocoltypes.NewGroupMultiMember()
	if err != nil {
		vfInfra("group: %v", err)
	}
	w.joinable = []*protocoltypes.Group{mg}
	return w
}

func (w *vfXWorld) close() {
	done := make(chan struct{})
	go func() {
		defer close(done)
		defer func() { _ = recover() }()
		w.closeSvc()
		w.cancel()
		_ = w.mn.Close()
	}()
	select {
	case <-done:
	case <-time.After(60 * time.Second):
		vfInfra("service close hung")
	}
	w.tb.runCleanups()
}

func (w *vfXWorld) group(name string) *vfXGroup {
	for _, g := range w.groups {
		if g.name == name {
			return g
		}
	}
	return nil
}

func (w *vfXWorld) srcGC(name string) *GroupContext {
	g := w.group(name)
	if g == nil {
		return nil
	}
	w.s.lock.RLock()
	defer w.s.lock.RUnlock()
	return w.s.openedGroups[string(g.g.PublicKey)]
}

func (w *vfXWorld) pkName(raw []byte) string {
	k := hex.EncodeToString(raw)
	if n, ok := w.pks[k]; ok {
		return n
	}
	n := fmt.Sprintf("k%d", len(w.pks)+1)
	w.pks[k] = n
	return n
}

// pkNames: the SET of keys a getter returned (ListAdmins returns an admin once per index rebuild:
// the index keeps admins in a map keyed by key pointer; a matter of C04, not of export/restore)
func (w *vfXWorld) pkNames(keys []crypto.PubKey) []string {
	seen := map[string]bool{}
	out := []string{}
	for _, k := range keys {
		n := w.pkName(vfXRawPK(k))
		if !seen[n] {
			seen[n] = true
			out = append(out, n)
		}
	}
	sort.Strings(out)
	return out
}

// ------------------------------------------------------------------ projections (same for source and restored node)

func (w *vfXWorld) logOf(s iface.Store, assign bool) map[string]any {
	name := func(id string) int {
		if n, ok := w.names[id]; ok {
			return n
		}
		if !assign {
			return -1
		}
		n := len(w.names) + 1
		w.names[id] = n
		return n
	}
	ord := []int{}
	for _, id := range vfXValueIDs(s) {
		ord = append(ord, name(id))
	}
	set := append([]int{}, ord...)
	sort.Ints(set)
	ins := []int{}
	for _, id := range vfXEntryIDs(s) {
		ins = append(ins, name(id))
	}
	sort.Ints(ins)
	heads := []int{}
	for _, e := range vfXHeads(s) {
		heads = append(heads, name(e.GetHash().String()))
	}
	sort.Ints(heads)
	return map[string]any{"set": ins, "ord": ord, "heads": heads, "n": len(set)}
}

func vfXShortType(t protocoltypes.EventType) string {
	if k, ok := vfXEvKinds[t]; ok {
		return k
	}
	return strings.TrimPrefix(t.String(), "EventType")
}

// stateOf: what the stores of a group report (functions of the log only; nothing relative to the own device)
func (w *vfXWorld) stateOf(gname string, gc *GroupContext, withKeys bool) map[string]any {
	m := gc.MetadataStore()
	st := map[string]any{}
	st["mem"] = w.pkNames(m.ListMembers())
	st["dev"] = w.pkNames(m.ListDevices())
	st["adm"] = w.pkNames(m.ListAdmins())
	evs := []string{}
	if ch, err := m.ListEvents(w.ctx, nil, nil, false); err == nil {
		for e := range ch {
			evs = append(evs, vfXShortType(e.Metadata.EventType))
		}
	} else {
		evs = append(evs, "!"+err.Error())
	}
	st["evs"] = evs
	if gname == "acct" {
		en, sh := m.GetIncomingContactRequestsStatus()
		sw := "none"
		if idx, ok := m.Index().(*metadataStoreIndex); ok {
			idx.lock.RLock()
			if idx.contactRequestEnabled != nil {
				if *idx.contactRequestEnabled {
					sw = "en"
				} else {
					sw = "dis"
				}
			}
			idx.lock.RUnlock()
		}
		seed := 0
		if sh != nil && len(sh.PublicRendezvousSeed) > 0 {
			k := fmt.Sprintf("%x", sh.PublicRendezvousSeed)
			if n, ok := w.seeds[k]; ok {
				seed = n
			} else if withKeys { // source: a seed set by the service itself
				w.seeds[k] = 1000 + len(w.seeds)
				seed = w.seeds[k]
			} else {
				seed = -1
			}
		}
		cs := map[string]any{}
		lc := m.ListContacts()
		for i, c := range w.contacts {
			v := "U"
			if ac, ok := lc[string(c.raw)]; ok {
				v = vfXContactStateNames[ac.state]
			}
			for stv, nm := range vfXContactStateNames {
				if stv == protocoltypes.ContactState_ContactStateUndefined {
					continue
				}
				for _, x := range m.ListContactsByStatus(stv) {
					if bytes.Equal(x.Pk, c.raw) && nm != v {
						v = v + "/" + nm
					}
				}
			}
			cs[fmt.Sprintf("c%d", i+1)] = v
		}
		gj := []string{}
		for _, x := range m.ListMultiMemberGroups() {
			gj = append(gj, w.pkName(x.PublicKey))
		}
		sort.Strings(gj)
		st["sw"], st["en"], st["seed"], st["cs"], st["gj"], st["nc"] = sw, en, seed, cs, gj, len(lc)
	}
	// messages the node can read, in log order (digest of the decrypted payload; "?" = cannot be opened)
	msgs := []string{}
	ms := gc.MessageStore()
	for _, e := range ms.OpLog().Values().Slice() {
		ev, err := ms.openMessage(w.ctx, e)
		if err != nil || ev == nil {
			msgs = append(msgs, "?")
			continue
		}
		d := sha256.Sum256(ev.Message)
		msgs = append(msgs, hex.EncodeToString(d[:4]))
	}
	st["msgs"] = msgs
	return st
}

func (w *vfXWorld) snapGroup(gname string, gc *GroupContext, source bool) map[string]any {
	return map[string]any{
		"meta": w.logOf(gc.MetadataStore(), source),
		"msg":  w.logOf(gc.MessageStore(), source),
		"st":   w.stateOf(gname, gc, source),
	}
}

func (w *vfXWorld) snapSource() map[string]any {
	out := map[string]any{}
	for _, g := range w.groups {
		if gc := w.srcGC(g.name); gc != nil {
			out[g.name] = w.snapGroup(g.name, gc, true)
		}
	}
	return out
}

func vfXKeyDigest(ss secretstore.SecretStore) map[string]any {
	a, p, err := ss.ExportAccountKeysForBackup()
	if err != nil {
		return map[string]any{"err": err.Error()}
	}
	da, dp := sha256.Sum256(a), sha256.Sum256(p)
	out := map[string]any{"acc": hex.EncodeToString(da[:6]), "proof": hex.EncodeToString(dp[:6])}
	if g, _, err := ss.GetGroupForAccount(); err == nil {
		out["agpk"] = hex.EncodeToString(g.PublicKey[:6])
	} else {
		out["agpk"] = "!" + err.Error()
	}
	return out
}

// ------------------------------------------------------------------ history operations on the source

func (w *vfXWorld) op(st vfStep, ev map[string]any) {
	ctx := w.ctx
	var err error
	var op operation.Operation
	ev["s"], ev["x"] = st.S, st.X
	acct := func() *MetadataStore { return w.s.getAccountGroup().MetadataStore() }
	contact := func() *vfXContact { return w.contacts[(st.X+len(w.contacts)-1)%len(w.contacts)] }
	switch st.S {
	case "en":
		op, err = acct().ContactRequestEnable(ctx)
	case "dis":
		op, err = acct().ContactRequestDisable(ctx)
	case "rs":
		op, err = acct().ContactRequestReferenceReset(ctx)
	case "enq":
		c := contact()
		op, err = acct().ContactRequestOutgoingEnqueue(ctx, &protocoltypes.ShareableContact{Pk: c.raw, PublicRendezvousSeed: c.seed, Metadata: c.meta}, []byte("own"))
	case "sent":
		op, err = acct().ContactRequestOutgoingSent(ctx, contact().pk)
	case "recv":
		c := contact()
		op, err = acct().ContactRequestIncomingReceived(ctx, &protocoltypes.ShareableContact{Pk: c.raw, PublicRendezvousSeed: c.seed, Metadata: c.meta})
	case "disc":
		op, err = acct().ContactRequestIncomingDiscard(ctx, contact().pk)
	case "acc":
		// through the service: also opens the contact group
		c := contact()
		_, err = w.s.ContactRequestAccept(ctx, &protocoltypes.ContactRequestAccept_Request{ContactPk: c.raw})
		if err == nil && st.X == 1 && w.group("ct") == nil {
			g, gerr := w.s.secretStore.GetGroupForContact(c.pk)
			if gerr != nil {
				vfInfra("contact group: %v", gerr)
			}
			if _, aerr := w.s.ActivateGroup(ctx, &protocoltypes.ActivateGroup_Request{GroupPk: g.PublicKey}); aerr != nil {
				vfInfra("activate contact group: %v", aerr)
			}
			w.groups = append(w.groups, &vfXGroup{"ct", g})
		}
	case "blk":
		op, err = acct().ContactBlock(ctx, contact().pk)
	case "unb":
		op, err = acct().ContactUnblock(ctx, contact().pk)
	case "join":
		op, err = acct().GroupJoin(ctx, w.joinable[0])
	case "leave":
		gpk, _ := w.joinable[0].GetPubKey()
		op, err = acct().GroupLeave(ctx, gpk)
	case "mmcreate":
		if w.group("mm") != nil {
			ev["skip"] = true
			return
		}
		var cr *protocoltypes.MultiMemberGroupCreate_Reply
		cr, err = w.s.MultiMemberGroupCreate(ctx, &protocoltypes.MultiMemberGroupCreate_Request{})
		if err == nil {
			gc, gerr := w.s.GetContextGroupForID(cr.GroupPk)
			if gerr != nil {
				vfInfra("created group is not open: %v", gerr)
			}
			w.groups = append(w.groups, &vfXGroup{"mm", gc.Group()})
		}
	case "foreign":
		// a second writer (another member's device) appends to the group and its heads reach this node: the log
		// then has several heads until the account writes again
		g := w.group(st.D)
		src := w.srcGC(st.D)
		if g == nil || src == nil {
			ev["skip"] = true
			return
		}
		err = w.foreignWrite(g.g, src, st.X)
		ev["mheads"] = len(src.MetadataStore().OpLog().Heads().Slice())
		ev["gheads"] = len(src.MessageStore().OpLog().Heads().Slice())
	case "msg", "meta":
		g := w.group(st.D)
		if g == nil || w.srcGC(st.D) == nil {
			ev["skip"] = true
			return
		}
		payload := []byte(fmt.Sprintf("%s-%s-%d-%d", st.S, st.D, st.X, w.rnd.Intn(1<<30)))
		if st.S == "msg" {
			_, err = w.s.AppMessageSend(ctx, &protocoltypes.AppMessageSend_Request{GroupPk: g.g.PublicKey, Payload: payload})
		} else {
			_, err = w.s.AppMetadataSend(ctx, &protocoltypes.AppMetadataSend_Request{GroupPk: g.g.PublicKey, Payload: payload})
		}
	default:
		vfInfra("unknown op %q", st.S)
	}
	ev["ok"] = err == nil
	if err != nil {
		ev["err"] = vfXErrClass(err)
	}
	if err == nil && op != nil {
		if meta, evt, oerr := vfOpenMetadataEntry(acct().OpLog(), op.GetEntry(), w.s.getAccountGroup().Group()); oerr == nil {
			ev["evk"] = vfXShortType(meta.Metadata.EventType)
			if rs, ok := evt.(*protocoltypes.AccountContactRequestReferenceReset); ok {
				w.seeds[fmt.Sprintf("%x", rs.PublicRendezvousSeed)] = len(w.seeds) + 1
			}
		}
	}
}

func vfXErrClass(err error) string {
	s := err.Error()
	for _, k := range []string{"multiple keys found", "entry CID doesn't match file CID", "an account is already set", "unable to parse CID in filename",
		"invalid expected key size", "invalid expected node size", "unexpected EOF", "unexpected file size", "ErrDeserialization", "error while restoring db head",
		"the account key cannot be the same", "ErrOrbitDBOpen", "invalid tar header", "context canceled"} {
		if strings.Contains(s, k) {
			return k
		}
	}
	if len(s) > 120 {
		s = s[len(s)-120:]
	}
	return s
}

// ------------------------------------------------------------------ export

// export takes the archive through the gRPC stream, retried until the source did not change meanwhile
func (w *vfXWorld) export(ev map[string]any) {
	for try := 0; ; try++ {
		if try == 20 {
			vfInfra("source node does not become quiescent")
		}
		before := w.snapSource()
		keys := vfXKeyDigest(w.s.secretStore)
		cl, err := w.tp.Client.ServiceExportData(w.ctx, &protocoltypes.ServiceExportData_Request{})
		if err != nil {
			ev["ok"], ev["err"] = false, vfXErrClass(err)
			return
		}
		var buf bytes.Buffer
		for {
			rep, rerr := cl.Recv()
			if rerr == io.EOF {
				break
			}
			if rerr != nil {
				ev["ok"], ev["err"] = false, vfXErrClass(rerr)
				return
			}
			buf.Write(rep.ExportedData)
		}
		after := w.snapSource()
		if fmt.Sprint(before) != fmt.Sprint(after) {
			time.Sleep(50 * time.Millisecond)
			continue
		}
		w.raw, w.files, w.srcSnap, w.srcKeys = buf.Bytes(), vfXReadTar(buf.Bytes()), after, keys
		break
	}
	w.nExport++
	ev["ok"] = true
	ev["n"] = w.nExport
	ev["keys"] = w.srcKeys
	ev["src"] = w.srcSnap
	open := []string{}
	for _, g := range w.groups {
		if w.srcGC(g.name) != nil {
			open = append(open, g.name)
		}
	}
	ev["open"] = open
	ev["files"] = w.listing(w.files)
	ev["bytes"] = len(w.raw)
}

// role of a file of the last export: what the model calls it
type vfXRole struct {
	t  string // key | entry | heads | other
	n  string // key name
	g  string // group
	st string // meta | msg
	e  int    // entry name
}

func (w *vfXWorld) entryHome(id string) (string, string) {
	for _, g := range w.groups {
		gc := w.srcGC(g.name)
		if gc == nil {
			continue
		}
		if c, err := cid.Parse(id); err == nil {
			if _, ok := gc.MetadataStore().OpLog().Get(c); ok {
				return g.name, "meta"
			}
			if _, ok := gc.MessageStore().OpLog().Get(c); ok {
				return g.name, "msg"
			}
		}
	}
	return "?", "?"
}

func (w *vfXWorld) roleOf(f vfXFile) vfXRole {
	switch {
	case f.name == exportAccountKeyFilename:
		return vfXRole{t: "key", n: "account"}
	case f.name == exportAccountProofKeyFilename:
		return vfXRole{t: "key", n: "proof"}
	case strings.HasPrefix(f.name, exportOrbitDBEntriesPrefix):
		id := strings.TrimPrefix(f.name, exportOrbitDBEntriesPrefix)
		g, st := w.entryHome(id)
		n, ok := w.names[id]
		if !ok {
			n = -1
		}
		return vfXRole{t: "entry", g: g, st: st, e: n}
	case strings.HasPrefix(f.name, exportOrbitDBHeadsPrefix):
		b, _ := base64.RawURLEncoding.DecodeString(strings.TrimPrefix(f.name, exportOrbitDBHeadsPrefix))
		for _, g := range w.groups {
			if bytes.Equal(g.g.PublicKey, b) {
				return vfXRole{t: "heads", g: g.name}
			}
		}
		return vfXRole{t: "heads", g: "?"}
	}
	return vfXRole{t: "other"}
}

// listing: what an archive contains, file by file, judged against the source node:
// key files: bytes equal to the node's key; entry files: do the bytes hash to the name;
// heads files: group, the heads they name, and whether pk / signing key / link key are the group's
func (w *vfXWorld) listing(files []vfXFile) []map[string]any {
	out := []map[string]any{}
	a, p, _ := w.s.secretStore.ExportAccountKeysForBackup()
	for _, f := range files {
		r := w.roleOf(f)
		m := map[string]any{"t": r.t}
		// same: byte-identical to the exported file of that name
		same := false
		for _, o := range w.files {
			if o.name == f.name {
				same = bytes.Equal(o.data, f.data)
				break
			}
		}
		m["same"] = same
		switch r.t {
		case "key":
			m["n"] = r.n
			want := a
			if r.n == "proof" {
				want = p
			}
			m["match"] = bytes.Equal(f.data, want)
		case "entry":
			m["g"], m["s"], m["e"] = r.g, r.st, r.e
			ok := false
			if c, err := cid.Parse(strings.TrimPrefix(f.name, exportOrbitDBEntriesPrefix)); err == nil {
				if nd, err := cbornode.Decode(f.data, mh.SHA2_256, -1); err == nil {
					ok = nd.Cid().Equals(c)
				}
			}
			m["match"] = ok
		case "heads":
			m["g"] = r.g
			he := &protocoltypes.GroupHeadsExport{}
			ok := proto.Unmarshal(f.data, he) == nil
			mhd, ghd := []int{}, []int{}
			if ok {
				for _, set := range []struct {
					in  [][]byte
					out *[]int
				}{{he.MetadataHeadsCids, &mhd}, {he.MessagesHeadsCids, &ghd}} {
					for _, cb := range set.in {
						n := -1
						if c, err := cid.Parse(cb); err == nil {
							if nn, has := w.names[c.String()]; has {
								n = nn
							}
						}
						*set.out = append(*set.out, n)
					}
					sort.Ints(*set.out)
				}
				if g := w.group(r.g); g != nil {
					spk, _ := g.g.GetSigningPubKey()
					var spkb []byte
					if spk != nil {
						spkb, _ = spk.Raw()
					}
					lk, _ := g.g.GetLinkKeyArray()
					ok = bytes.Equal(he.PublicKey, g.g.PublicKey) && bytes.Equal(he.SignPub, spkb) && lk != nil && bytes.Equal(he.LinkKey, lk[:])
				} else {
					ok = false
				}
			}
			m["match"], m["mh"], m["gh"] = ok, mhd, ghd
		}
		out = append(out, m)
	}
	return out
}

// ------------------------------------------------------------------ mutation of the archive

func vfXStr(m map[string]any, k string) string {
	if v, ok := m[k].(string); ok {
		return v
	}
	return ""
}

// pick finds the file the abstract target names: {t, n | g, s, k, kn}; k-th of kn entries of (g, s)
// in archive order (first -> first, last -> last, otherwise proportional)
func (w *vfXWorld) pick(files []vfXFile, tgt map[string]any) int {
	t := vfXStr(tgt, "t")
	var cand []int
	for i, f := range files {
		r := w.roleOf(f)
		if r.t != t {
			continue
		}
		switch t {
		case "key":
			if r.n == vfXStr(tgt, "n") {
				cand = append(cand, i)
			}
		case "heads":
			if r.g == vfXStr(tgt, "g") {
				cand = append(cand, i)
			}
		case "entry":
			if r.g == vfXStr(tgt, "g") && r.st == vfXStr(tgt, "s") {
				cand = append(cand, i)
			}
		}
	}
	if len(cand) == 0 {
		return -1
	}
	k, _ := vfNum(tgt, "k")
	kn, _ := vfNum(tgt, "kn")
	switch {
	case k <= 1:
		return cand[0]
	case k >= kn:
		return cand[len(cand)-1]
	default:
		return cand[(k-1)*len(cand)/kn]
	}
}

// canonical: key files, then group by group (account, contact, multi-member) in the exported order of each group's files
func (w *vfXWorld) canonical(files []vfXFile) []vfXFile {
	rank := func(f vfXFile) int {
		r := w.roleOf(f)
		if r.t == "key" {
			return 0
		}
		switch r.g {
		case "acct":
			return 1
		case "ct":
			return 2
		case "mm":
			return 3
		}
		return 4
	}
	out := append([]vfXFile{}, files...)
	sort.SliceStable(out, func(i, j int) bool { return rank(out[i]) < rank(out[j]) })
	return out
}

func vfXFlip(b []byte, at, bit int) []byte {
	out := append([]byte{}, b...)
	if len(out) > 0 {
		out[at%len(out)] ^= 1 << uint(bit%8)
	}
	return out
}

// flipRange: the byte range of the file that the abstract class names.
// key files (protobuf {type, 64 raw bytes}): frame | seed | pub; heads files: frame | pk | sign | cid | link;
// anything else: the whole file
func (w *vfXWorld) flipRange(f vfXFile, cls string) (int, int) {
	d := f.data
	sub := func(x []byte) (int, int) {
		if len(x) == 0 {
			return 0, 0
		}
		i := bytes.Index(d, x)
		if i < 0 {
			return 0, 0
		}
		return i, i + len(x)
	}
	r := w.roleOf(f)
	switch r.t {
	case "key":
		if len(d) < 64 {
			return 0, len(d)
		}
		switch cls {
		case "frame":
			return 0, len(d) - 64
		case "seed":
			return len(d) - 64, len(d) - 32
		case "pub":
			return len(d) - 32, len(d)
		}
	case "heads":
		he := &protocoltypes.GroupHeadsExport{}
		if proto.Unmarshal(d, he) != nil {
			return 0, len(d)
		}
		switch cls {
		case "frame":
			return 0, 2
		case "pk":
			return sub(he.PublicKey)
		case "sign":
			return sub(he.SignPub)
		case "link":
			return sub(he.LinkKey)
		case "cid":
			// the digest part of a head identifier (it stays a well-formed CID, of an entry nobody has)
			for _, set := range [][][]byte{he.MetadataHeadsCids, he.MessagesHeadsCids} {
				if len(set) > 0 && len(set[0]) > 32 {
					lo, hi := sub(set[0])
					if hi > lo {
						return hi - 32, hi
					}
				}
			}
			return 0, 0
		}
	}
	return 0, len(d)
}

// mutate returns the archive bytes to feed, the file list it was built from, and false when the target does not exist
func (w *vfXWorld) mutate(st vfStep, ev map[string]any) ([]byte, []vfXFile, bool) {
	files := append([]vfXFile{}, w.files...)
	tgt, _ := st.A["tgt"].(map[string]any)
	at, _ := st.A["at"].(map[string]any)
	pos := func() int { // insertion point: before the file `at` names, or at the end
		if vfXStr(at, "t") == "end" || at == nil {
			return len(files)
		}
		if vfXStr(at, "t") == "front" {
			return 0
		}
		j := w.pick(files, at)
		if j < 0 {
			return len(files)
		}
		return j
	}
	if st.S == "none" || st.S == "used" {
		return w.raw, files, true // the archive exactly as the service streamed it
	}
	// every rebuilt archive lists the groups in the model's order (the service exports them in map order)
	files = w.canonical(files)
	switch st.S {
	case "flip":
		i := w.pick(files, tgt)
		if i < 0 {
			return nil, nil, false
		}
		lo, hi := w.flipRange(files[i], vfXStr(st.A, "cls"))
		if hi <= lo {
			return nil, nil, false
		}
		off := lo + w.rnd.Intn(hi-lo)
		ev["off"], ev["len"], ev["cls"] = off, len(files[i].data), vfXStr(st.A, "cls")
		files[i] = vfXFile{files[i].name, vfXFlip(files[i].data, off, w.rnd.Intn(8))}
	case "drop":
		i := w.pick(files, tgt)
		if i < 0 {
			return nil, nil, false
		}
		files = append(files[:i:i], files[i+1:]...)
	case "dup":
		i := w.pick(files, tgt)
		if i < 0 {
			return nil, nil, false
		}
		j := pos()
		f := files[i]
		files = append(files[:j:j], append([]vfXFile{f}, files[j:]...)...)
	case "move":
		i := w.pick(files, tgt)
		if i < 0 {
			return nil, nil, false
		}
		f := files[i]
		j := pos()
		files = append(files[:i:i], files[i+1:]...)
		if j > i {
			j--
		}
		files = append(files[:j:j], append([]vfXFile{f}, files[j:]...)...)
	case "trunc":
		// keep the first x-th part of the files; y > 0: the archive ends inside the last kept file
		kn, _ := vfNum(st.A, "kn")
		if kn <= 0 {
			kn = 1
		}
		keep := st.X * len(files) / kn
		if keep >= len(files) && st.Y == 0 {
			keep = len(files) - 1
		}
		if keep < 0 {
			keep = 0
		}
		files = files[:keep]
		cut := 0
		if st.Y > 0 && keep > 0 {
			cut = 1 + w.rnd.Intn(len(files[keep-1].data))
			ev["cut"] = cut
		}
		return vfXWriteTar(files, true, cut), files, true
	default:
		vfInfra("unknown mutation %q", st.S)
	}
	return vfXWriteTar(files, false, 0), files, true
}

// ------------------------------------------------------------------ restore

// bounded waits: a restore that must end with a definite answer (unmutated archive; the damage the
// property says is rejected) gets a long one, so that a loaded machine cannot turn it into "timeout";
// every other restore may also hang (an offline node cannot fetch what the archive lacks): short one
func vfXWait(long bool) time.Duration {
	if long {
		return time.Duration(vfEnvInt("VERIF_RESTORE_LONG_MS", 20000)) * time.Millisecond
	}
	return time.Duration(vfEnvInt("VERIF_RESTORE_WAIT_MS", 4000)) * time.Millisecond
}

func (w *vfXWorld) restore(st vfStep, ev map[string]any) {
	ev["s"] = st.S
	if w.raw == nil {
		ev["skip"] = true
		return
	}
	if tgt, _ := st.A["tgt"].(map[string]any); vfXSkip[st.S+":"+vfXStr(tgt, "t")] {
		// a mutation class already confirmed to kill the process in this run (reported by the check)
		ev["skip"], ev["why"] = true, "confirmed-crash-class"
		return
	}
	archive, files, ok := w.mutate(st, ev)
	if !ok {
		ev["skip"] = true
		return
	}
	ev["n"] = w.nExport
	fed := w.listing(files)
	if st.S == "trunc" {
		if _, has := ev["cut"]; has && len(fed) > 0 {
			fed[len(fed)-1]["partial"] = true
		}
		ev["noend"] = true
	}
	ev["fed"] = fed
	used := st.S == "used"
	ev["used"] = used
	tgtT := ""
	if tgt, _ := st.A["tgt"].(map[string]any); tgt != nil {
		tgtT = vfXStr(tgt, "t")
	}
	long := st.S == "none" || used || (st.S == "flip" && tgtT == "entry") || ((st.S == "drop" || st.S == "dup") && tgtT == "key")
	if w.progress != nil {
		w.progress(ev)
	}

	tb := &vfXTB{TB: w.tb.TB}
	ctx, cancel := context.WithCancel(context.Background())
	mn := mocknet.New()
	defer func() {
		cancel()
		_ = mn.Close()
		tb.runCleanups()
	}()
	ds := dssync.MutexWrap(datastore.NewMapDatastore())
	ss, err := secretstore.NewSecretStore(ds, nil)
	if err != nil {
		vfInfra("secret store: %v", err)
	}
	if used {
		// the target store already holds an account: a complete one (created on first use), or - the two
		// account keys are generated lazily and independently - only its account key or only its proof key
		switch flavour := w.nExport % 3; flavour {
		case 0:
			if _, _, err := ss.GetGroupForAccount(); err != nil {
				vfInfra("account creation on target: %v", err)
			}
			ev["usedhow"] = "full"
			ev["tkeys"] = vfXKeyDigest(ss)
		case 1:
			if _, err := ss.GetAccountPrivateKey(); err != nil {
				vfInfra("account key creation on target: %v", err)
			}
			ev["usedhow"] = "account-key-only"
		default:
			mg, _, err := protocoltypes.NewGroupMultiMember()
			if err != nil {
				vfInfra("group: %v", err)
			}
			if _, err := ss.GetOwnMemberDeviceForGroup(mg); err != nil {
				vfInfra("member key derivation on target: %v", err)
			}
			ev["usedhow"] = "proof-key-only"
		}
	}
	node := ipfsutil.TestingCoreAPIUsingMockNet(ctx, tb, &ipfsutil.TestingAPIOpts{Mocknet: mn, Datastore: ds, Logger: zap.NewNop(), DiscoveryServer: tinder.NewMockDriverServer()})
	logger := zap.NewNop()
	odb, err := NewWeshOrbitDB(ctx, node.API(), &NewOrbitDBOptions{
		NewOrbitDBOptions: orbitdb.NewOrbitDBOptions{
			PubSub: pubsubraw.NewPubSub(node.PubSub(), node.MockNode().PeerHost.ID(), logger, nil),
			Logger: logger,
		},
		Datastore:   ds,
		SecretStore: ss,
	})
	if err != nil {
		vfInfra("orbitdb: %v", err)
	}
	defer func() {
		done := make(chan struct{})
		go func() { defer close(done); defer func() { _ = recover() }(); _ = odb.Close() }()
		select {
		case <-done:
		case <-time.After(30 * time.Second):
		}
	}()

	type result struct {
		err   error
		panic string
	}
	done := make(chan result, 1)
	t0 := time.Now()
	go func() {
		var r result
		defer func() {
			if p := recover(); p != nil {
				r.panic = fmt.Sprintf("%v\n%s", p, debug.Stack())
			}
			done <- r
		}()
		r.err = RestoreAccountExport(ctx, bytes.NewReader(archive), node.API(), odb, logger)
	}()
	var r result
	select {
	case r = <-done:
	case <-time.After(vfXWait(long)):
		ev["out"] = "timeout"
		return
	}
	ev["ms"] = time.Since(t0).Milliseconds()
	switch {
	case r.panic != "":
		ev["out"], ev["err"] = "panic", strings.SplitN(r.panic, "\n", 2)[0]
		return
	case r.err != nil:
		ev["out"], ev["err"] = "err", vfXErrClass(r.err)
		return
	}
	ev["out"] = "ok"
	// the restored node: keys, then every group of the source opened normally
	ev["keys"] = vfXKeyDigest(ss)
	res := map[string]any{}
	tr := true
	for _, g := range w.groups {
		if w.srcSnap[g.name] == nil {
			continue
		}
		var gc *GroupContext
		var oerr error
		opened := make(chan struct{})
		go func() {
			defer close(opened)
			defer func() {
				if p := recover(); p != nil {
					oerr = fmt.Errorf("panic: %v", p)
				}
			}()
			gc, oerr = odb.OpenGroup(ctx, g.g, &orbitdb.CreateDBOptions{LocalOnly: &tr})
		}()
		select {
		case <-opened:
		case <-time.After(vfXWait(true)):
			res[g.name] = map[string]any{"open": "timeout"}
			continue
		}
		if oerr != nil {
			res[g.name] = map[string]any{"open": vfXErrClass(oerr)}
			continue
		}
		gc.fillMessageKeysHolderUsingPreviousData()
		sn := w.snapGroup(g.name, gc, false)
		sn["open"] = "ok"
		res[g.name] = sn
	}
	ev["g"] = res
}

// ------------------------------------------------------------------ script runner

func vfExportRun(t testing.TB, sc vfScript, worker int) []map[string]any {
	w := vfXNewWorld(t, int64(sc.ID)+1)
	defer w.close()
	out := []map[string]any{{"ev": "reset", "id": sc.ID}}
	if dir := os.Getenv("VERIF_PROGRESS_DIR"); dir != "" {
		p := fmt.Sprintf("%s/w%d.json", dir, worker)
		w.progress = func(ev map[string]any) {
			b, _ := json.Marshal(map[string]any{"id": sc.ID, "done": out, "begin": ev})
			_ = os.WriteFile(p+".tmp", b, 0o644)
			_ = os.Rename(p+".tmp", p)
		}
		defer os.Remove(p)
	}
	for i, st := range sc.Steps {
		ev := map[string]any{"ev": st.Act, "i": i}
		switch st.Act {
		case "op":
			ev["d"] = st.D
			w.op(st, ev)
		case "export":
			w.export(ev)
		case "restore":
			w.restore(st, ev)
		default:
			vfInfra("unknown action %q", st.Act)
		}
		out = append(out, ev)
	}
	return out
}

func TestVerifExportRestore(t *testing.T) {
	scripts := vfLoadScripts(t)
	tr := vfOpenTrace(t)
	defer tr.Close()
	// one service started and stopped before the workers run: go-ipfs-log builds its CBOR codec in a lazily
	// initialised global without synchronisation (io/cbor.IO); two first uses at the same time leave one of them
	// with a half-built atlas ("missing an atlas entry ... IdentitySignature")
	vfXNewWorld(t, 0).close()
	var wg sync.WaitGroup
	ch := make(chan vfScript, 16)
	for k := 0; k < vfEnvInt("VERIF_WORKERS", 6); k++ {
		wg.Add(1)
		go func(k int) {
			defer wg.Done()
			for sc := range ch {
				tr.EmitBlock(vfExportRun(t, sc, k))
				tr.mu.Lock()
				tr.w.Flush() // completed blocks survive a crash of the process
				tr.mu.Unlock()
			}
		}(k)
	}
	for _, sc := range scripts {
		ch <- sc
	}
	close(ch)
	wg.Wait()
	t.Logf("VERIF-DONE scripts=%d events=%d", len(scripts), tr.n)
}
