//go:build verif

package weshnet

// C17 at the store layer: topics are registered by WeshOrbitDB.storeForGroup when a group is opened
// (orbitdb.go), not by the driver.  Two orbit-db instances with their own RotationInterval open the
// same group at scripted instants of the virtual clock (pkg/rendezvous rewritten by the check, the
// clock read of storeForGroup too); after every step each peer's point for the group's store
// addresses is compared with the pure function for (address, link key, now), and the peers exchange
// rotation values.  Verdict: MonRdvStore.tla.

import (
	"bytes"
	"fmt"
	"testing"
	"time"

	"github.com/ipfs/go-datastore"
	dssync "github.com/ipfs/go-datastore/sync"
	"go.uber.org/zap"

	orbitdb "berty.tech/go-orbit-db"
	"berty.tech/weshnet/v2/pkg/protocoltypes"
	"berty.tech/weshnet/v2/pkg/rendezvous"
	"berty.tech/weshnet/v2/pkg/secretstore"
)

type vfRdvPeer struct {
	rp     *rendezvous.RotationInterval
	db     *WeshOrbitDB
	topics []string
}

func vfRdvStoreRun(t *testing.T, sc vfScript) []map[string]any {
	isec, _ := vfNum(sc.Cfg, "isec")
	off, _ := vfNum(sc.Cfg, "off")
	interval := time.Duration(isec) * time.Second
	base := (int64(1800000000) / int64(isec)) * int64(isec)
	now := time.Unix(base+int64(off), 0)
	rendezvous.VfClockEnable(now)
	defer rendezvous.VfClockDisable()
	w := vfNewRWorld(t)
	g, _, err := NewGroupMultiMember()
	if err != nil {
		vfInfra("group: %v", err)
	}
	linkKey, err := g.GetLinkKeyArray()
	if err != nil {
		vfInfra("link key: %v", err)
	}
	seed := append([]byte(nil), linkKey[:]...)
	peers := map[string]*vfRdvPeer{}
	names := []string{}
	out := []map[string]any{{"ev": "reset", "id": sc.ID}}
	resolveAll := func(i int) {
		for _, n := range names {
			p := peers[n]
			for k, topic := range p.topics {
				ev := map[string]any{"ev": "sresolve", "i": i, "d": n, "store": k, "now": int(rendezvous.VfClockNow().Unix())}
				pt, err := p.rp.PointForTopic(topic)
				ev["ok"] = err == nil
				if err == nil {
					// the pure function takes the START of the period
					want := rendezvous.GenerateRendezvousPointForPeriod([]byte(topic), seed, rendezvous.RoundTimePeriod(rendezvous.VfClockNow(), interval))
					ev["pure"] = bytes.Equal(pt.RawRotationTopic(), want)
					ev["future"] = pt.Deadline().After(rendezvous.VfClockNow())
					ev["topic"] = pt.Topic() == topic
				}
				out = append(out, ev)
			}
		}
		// every peer accepts every other peer's current rotation value and maps it back to the store address
		for _, a := range names {
			for _, b := range names {
				if a == b {
					continue
				}
				for k, topic := range peers[b].topics {
					ev := map[string]any{"ev": "sexchange", "i": i, "d": a, "from": b, "store": k}
					pt, err := peers[b].rp.PointForTopic(topic)
					if err != nil {
						ev["ok"] = false
						out = append(out, ev)
						continue
					}
					back, err := peers[a].rp.PointForRawRotation(pt.RawRotationTopic())
					ev["ok"] = err == nil
					if err == nil {
						ev["topic"] = back.Topic() == topic
					}
					out = append(out, ev)
				}
			}
		}
	}
	for i, st := range sc.Steps {
		switch st.Act {
		case "open":
			rp := rendezvous.NewRotationInterval(interval)
			ds := dssync.MutexWrap(datastore.NewMapDatastore())
			ss, err := secretstore.NewSecretStore(ds, nil)
			if err != nil {
				vfInfra("secret store: %v", err)
			}
			db, err := NewWeshOrbitDB(w.ctx, w.node.API(), &NewOrbitDBOptions{
				NewOrbitDBOptions: orbitdb.NewOrbitDBOptions{Logger: zap.NewNop()},
				Datastore:         ds,
				SecretStore:       ss,
				RotationInterval:  rp,
			})
			if err != nil {
				vfInfra("orbitdb: %v", err)
			}
			yes := true
			gc, err := db.OpenGroup(w.ctx, g, &orbitdb.CreateDBOptions{LocalOnly: &yes})
			if err != nil {
				vfInfra("open group: %v", err)
			}
			p := &vfRdvPeer{rp: rp, db: db, topics: []string{gc.MetadataStore().Address().String(), gc.MessageStore().Address().String()}}
			peers[st.D] = p
			names = append(names, st.D)
			out = append(out, map[string]any{"ev": "sopen", "i": i, "d": st.D, "now": int(rendezvous.VfClockNow().Unix())})
		case "tick":
			now = now.Add(time.Duration(st.X) * time.Second)
			rendezvous.VfClockSet(now)
			out = append(out, map[string]any{"ev": "stick", "i": i, "dt": st.X, "now": int(now.Unix())})
		default:
			vfInfra("unknown action %q", st.Act)
		}
		resolveAll(i)
	}
	for _, p := range peers {
		_ = p.db.Close()
	}
	_ = fmt.Sprint
	_ = protocoltypes.GroupType_GroupTypeMultiMember
	return out
}

func TestVerifRdvStore(t *testing.T) {
	scripts := vfLoadScripts(t)
	tr := vfOpenTrace(t)
	defer tr.Close()
	for _, sc := range scripts {
		tr.EmitBlock(vfRdvStoreRun(t, sc))
	}
	t.Logf("VERIF-DONE scripts=%d events=%d", len(scripts), tr.n)
}
