//go:build verif

package weshnet

// In-package drivers call two unexported helpers of the code under test.  A refactoring that adds a
// parameter to one of them (an options value, the local device key, a context) must not turn every
// check of the root package into a build failure: the helpers are called through reflection, the first
// parameters are matched by type and any parameter the drivers do not know gets its zero value.

import (
	"fmt"
	"reflect"

	"google.golang.org/protobuf/proto"

	ipfslog "berty.tech/go-ipfs-log"
	"berty.tech/weshnet/v2/pkg/protocoltypes"
)

func vfCallAdaptive(fn any, known ...any) []reflect.Value {
	f := reflect.ValueOf(fn)
	ft := f.Type()
	args := make([]reflect.Value, ft.NumIn())
	used := make([]bool, len(known))
	for i := 0; i < ft.NumIn(); i++ {
		pt := ft.In(i)
		args[i] = reflect.Zero(pt)
		for k, v := range known {
			if used[k] || v == nil {
				continue
			}
			vv := reflect.ValueOf(v)
			if vv.Type().AssignableTo(pt) {
				args[i] = vv
				used[k] = true
				break
			}
		}
	}
	return f.Call(args)
}

func vfErrOf(v reflect.Value) error {
	if v.IsNil() {
		return nil
	}
	if e, ok := v.Interface().(error); ok {
		return e
	}
	return fmt.Errorf("%v", v.Interface())
}

// vfOpenMetadataEntry calls openMetadataEntry(log, e, g[, ...])
func vfOpenMetadataEntry(log ipfslog.Log, e ipfslog.Entry, g *protocoltypes.Group) (*protocoltypes.GroupMetadataEvent, proto.Message, error) {
	var l any
	if log != nil {
		l = log
	}
	out := vfCallAdaptive(openMetadataEntry, l, e, g)
	if len(out) != 3 {
		vfInfra("openMetadataEntry returns %d values", len(out))
	}
	var ev *protocoltypes.GroupMetadataEvent
	var msg proto.Message
	if !out[0].IsNil() {
		ev, _ = out[0].Interface().(*protocoltypes.GroupMetadataEvent)
	}
	if !out[1].IsNil() {
		msg, _ = out[1].Interface().(proto.Message)
	}
	return ev, msg, vfErrOf(out[2])
}

// vfOpenGroupEnvelope calls openGroupEnvelope(g, envelopeBytes[, ...])
func vfOpenGroupEnvelope(g *protocoltypes.Group, env []byte) (*protocoltypes.GroupMetadata, proto.Message, error) {
	out := vfCallAdaptive(openGroupEnvelope, g, env)
	if len(out) != 3 {
		vfInfra("openGroupEnvelope returns %d values", len(out))
	}
	var md *protocoltypes.GroupMetadata
	var msg proto.Message
	if !out[0].IsNil() {
		md, _ = out[0].Interface().(*protocoltypes.GroupMetadata)
	}
	if !out[1].IsNil() {
		msg, _ = out[1].Interface().(proto.Message)
	}
	return md, msg, vfErrOf(out[2])
}
