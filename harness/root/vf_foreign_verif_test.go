//go:build verif

package weshnet

// A second writer for service-level drivers: another member's device (its own orbit-db instance,
// secret store and datastore over the node's IPFS API) opens a group of the node under test, appends
// to both logs and hands its heads to the node's stores.  Until the node writes again those logs
// have several heads.

import (
	"context"
	"fmt"
	"time"

	"github.com/ipfs/go-datastore"
	dssync "github.com/ipfs/go-datastore/sync"
	"github.com/libp2p/go-libp2p/p2p/host/eventbus"
	"go.uber.org/zap"

	ipfslog "berty.tech/go-ipfs-log"
	orbitdb "berty.tech/go-orbit-db"
	"berty.tech/go-orbit-db/iface"
	"berty.tech/go-orbit-db/stores"
	"berty.tech/weshnet/v2/pkg/ipfsutil"
	"berty.tech/weshnet/v2/pkg/protocoltypes"
	"berty.tech/weshnet/v2/pkg/secretstore"
)

type vfForeign struct {
	db *WeshOrbitDB
	gc *GroupContext
}

func vfNewForeign(ctx context.Context, api ipfsutil.ExtendedCoreAPI, g *protocoltypes.Group) (*vfForeign, error) {
	ds := dssync.MutexWrap(datastore.NewMapDatastore())
	ss, err := secretstore.NewSecretStore(ds, nil)
	if err != nil {
		return nil, err
	}
	db, err := NewWeshOrbitDB(ctx, api, &NewOrbitDBOptions{
		NewOrbitDBOptions: orbitdb.NewOrbitDBOptions{Logger: zap.NewNop()},
		Datastore:         ds,
		SecretStore:       ss,
	})
	if err != nil {
		return nil, err
	}
	// no pubsub replication: the node under test already listens on the stores' topics on this IPFS node
	yes, no := true, false
	gc, err := db.OpenGroup(ctx, g, &orbitdb.CreateDBOptions{LocalOnly: &yes, Replicate: &no})
	if err != nil {
		return nil, err
	}
	if _, err := gc.MetadataStore().AddDeviceToGroup(ctx); err != nil {
		return nil, err
	}
	return &vfForeign{db: db, gc: gc}, nil
}

func vfSyncHeads(ctx context.Context, to iface.Store, heads []ipfslog.Entry) {
	sub, err := to.EventBus().Subscribe(new(stores.EventReplicated), eventbus.BufSize(64))
	if err != nil {
		vfInfra("subscribe: %v", err)
	}
	defer sub.Close()
	hasAll := func() bool {
		for _, h := range heads {
			if _, ok := to.OpLog().Get(h.GetHash()); !ok {
				return false
			}
		}
		return true
	}
	if hasAll() {
		return
	}
	if err := to.Sync(ctx, heads); err != nil {
		vfInfra("sync: %v", err)
	}
	deadline := time.After(120 * time.Second)
	again := time.NewTicker(10 * time.Second)
	defer again.Stop()
	for {
		select {
		case <-sub.Out():
			if hasAll() {
				return
			}
		case <-time.After(200 * time.Millisecond):
			if hasAll() {
				return
			}
		case <-again.C:
			if err := to.Sync(ctx, heads); err != nil {
				vfInfra("sync (repeated): %v", err)
			}
		case <-deadline:
			vfInfra("foreign heads did not reach the node within 120s")
		}
	}
}

// Write appends one metadata payload and one message as the foreign device and hands the heads to src
func (f *vfForeign) Write(ctx context.Context, src *GroupContext, n int) error {
	if _, err := f.gc.MetadataStore().SendAppMetadata(ctx, []byte(fmt.Sprintf("foreign-meta-%d", n))); err != nil {
		return err
	}
	if _, err := f.gc.MessageStore().AddMessage(ctx, []byte(fmt.Sprintf("foreign-msg-%d", n))); err != nil {
		return err
	}
	vfSyncHeads(ctx, src.MetadataStore(), f.gc.MetadataStore().OpLog().Heads().Slice())
	vfSyncHeads(ctx, src.MessageStore(), f.gc.MessageStore().OpLog().Heads().Slice())
	f.Settle(src)
	return nil
}

// Settle waits until the node has reacted to the new member on its own (an activated group context announces its
// chain key to it: one more entry of the node itself) and both logs have stopped growing; what a driver observes
// next (a listing, an export) is then taken on a log that is at rest
func (f *vfForeign) Settle(src *GroupContext) {
	idx, _ := src.MetadataStore().Index().(*metadataStoreIndex)
	deadline := time.Now().Add(60 * time.Second)
	lastM, lastG, stable := -1, -1, time.Now()
	for {
		m, g := src.MetadataStore().OpLog().Len(), src.MessageStore().OpLog().Len()
		if m != lastM || g != lastG {
			lastM, lastG, stable = m, g, time.Now()
		}
		sent := true
		if idx != nil {
			if ok, err := idx.areSecretsAlreadySent(f.gc.MemberPubKey()); err == nil {
				sent = ok
			}
		}
		if sent && time.Since(stable) > 1500*time.Millisecond {
			return
		}
		if time.Now().After(deadline) {
			vfInfra("the node's logs do not settle after the second writer's entries")
		}
		time.Sleep(50 * time.Millisecond)
	}
}
