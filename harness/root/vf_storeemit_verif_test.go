//go:build verif

package weshnet

// Store-layer driver for C01 and C03 (specs/MonStoreEmit.tla).
//
// The forgeries of the envelope layer (GenEnvelope.tla) and of the metadata-signature layer
// (GenMetaEnvelope.tla) are written as real log entries into the orbit-db logs of a group and
// replicated (BaseStore.Sync) to a victim member V; what V's MessageStore / MetadataStore hand
// to subscribers, list (ListEvents, GroupMessageList / GroupMetadataList RPC) and report through
// the index - live and after V closed and reopened its database - is recorded.
//
// Replica world (vf_replica_verif_test.go): every party is a WeshOrbitDB + secret store of its own
// over one in-memory IPFS node, groups are opened LocalOnly and never activated (no background
// handlers: chain keys are registered by the driver the way GroupContext.handleGroupMetadataEvent
// does it), entries move between replicas only when the driver calls Sync with a head.
//
// Message part (C01).  V = victim; d1, d2 = honest senders (replicas, MessageStore.AddMessage);
// x = the attacker: a member secret store that registered the chain keys of d1 and d2 (its key
// material: the group secrets, its own device key, the message keys found in ITS OWN datastore)
// plus a writer replica Wr through which it appends whatever operation it likes (every member
// writes with the same log identity: the access controller only asks for the group's signing key).
// Quiescence: V seals a sentinel message of its own after every step; entries pass the store's
// subscriber and the message queue in FIFO order, so the sentinel's GroupMessageEvent comes after
// everything the earlier entries caused; rounds are repeated until a round is silent (a re-queue only
// ever follows a successful open, which emits).
//
// Metadata part (C03).  R = victim, R0 = control replica with a COPY of R's key material (same
// member and device keys) that receives every entry except the forged ones, H = honest member
// (party "V" of the symbolic terms), E = attacker (party "A").  Terms are concretised by the
// builder of vf_metasig_verif_test.go.  Quiescence: more empty EventReplicated events than the
// subscriber's buffer are emitted on the store's bus (the consumer is a sequential loop).

import (
	"bytes"
	"context"
	"encoding/hex"
	"fmt"
	"io"
	"math/rand"
	"os"
	"sort"
	"strconv"
	"strings"
	"sync"
	"testing"
	"time"

	"github.com/ipfs/go-cid"
	"github.com/ipfs/go-datastore"
	"github.com/ipfs/go-datastore/query"
	dssync "github.com/ipfs/go-datastore/sync"
	"github.com/libp2p/go-libp2p/core/crypto"
	"github.com/libp2p/go-libp2p/core/event"
	"github.com/libp2p/go-libp2p/p2p/host/eventbus"
	"golang.org/x/crypto/nacl/secretbox"
	"google.golang.org/grpc"
	"google.golang.org/grpc/metadata"
	"google.golang.org/protobuf/encoding/protowire"
	"google.golang.org/protobuf/proto"

	ipfslog "berty.tech/go-ipfs-log"
	orbitdb "berty.tech/go-orbit-db"
	"berty.tech/go-orbit-db/iface"
	"berty.tech/go-orbit-db/stores"
	"berty.tech/go-orbit-db/stores/operation"
	"berty.tech/weshnet/v2/pkg/protocoltypes"
	"berty.tech/weshnet/v2/pkg/secretstore"
)

// ------------------------------------------------------------------ shared helpers

func vfSEAddDevice(w *vfRWorld, name, sameAccountAs string, win int, ds datastore.Batching) *vfReplica {
	if ds == nil {
		ds = dssync.MutexWrap(datastore.NewMapDatastore())
	}
	r := &vfReplica{name: name, w: w, ds: ds, gcs: map[string]*GroupContext{}}
	var opts *secretstore.NewSecretStoreOptions
	if win > 0 {
		opts = &secretstore.NewSecretStoreOptions{PreComputedKeysCount: win}
	}
	var err error
	if r.ss, err = secretstore.NewSecretStore(ds, opts); err != nil {
		vfInfra("secret store: %v", err)
	}
	if sameAccountAs != "" {
		a, p, err := w.reps[sameAccountAs].ss.ExportAccountKeysForBackup()
		if err != nil {
			vfInfra("export keys: %v", err)
		}
		if err := r.ss.ImportAccountKeys(a, p); err != nil {
			vfInfra("import keys: %v", err)
		}
	}
	r.open()
	w.reps[name] = r
	return r
}

func vfSEClose(reps ...*vfReplica) {
	for _, r := range reps {
		if r == nil {
			continue
		}
		for _, gc := range r.gcs {
			gc.Close()
		}
		r.db.Close()
	}
}

func vfSERaw(k crypto.PubKey) []byte {
	b, err := k.Raw()
	if err != nil {
		vfInfra("raw key: %v", err)
	}
	return b
}

func vfSEMust(err error, what string) {
	if err != nil {
		vfInfra("%s: %v", what, err)
	}
}

type vfSEStream[T any] struct {
	ctx  context.Context
	mu   sync.Mutex
	msgs []*T
}

func (f *vfSEStream[T]) SetHeader(metadata.MD) error  { return nil }
func (f *vfSEStream[T]) SendHeader(metadata.MD) error { return nil }
func (f *vfSEStream[T]) SetTrailer(metadata.MD)       {}
func (f *vfSEStream[T]) Context() context.Context     { return f.ctx }
func (f *vfSEStream[T]) RecvMsg(any) error            { return io.EOF }
func (f *vfSEStream[T]) SendMsg(m any) error {
	f.mu.Lock()
	defer f.mu.Unlock()
	if v, ok := m.(*T); ok {
		f.msgs = append(f.msgs, v)
	}
	return nil
}

// a service that has just this group context open: enough for the two listing RPCs of api_event.go
func vfSEService(gc *GroupContext) *service {
	return &service{openedGroups: map[string]*GroupContext{string(gc.Group().PublicKey): gc}}
}

func vfSERPCMessages(gc *GroupContext) ([]*protocoltypes.GroupMessageEvent, error) {
	c, cancel := context.WithTimeout(context.Background(), 20*time.Second)
	defer cancel()
	fs := &vfSEStream[protocoltypes.GroupMessageEvent]{ctx: c}
	err := vfSEService(gc).GroupMessageList(&protocoltypes.GroupMessageList_Request{GroupPk: gc.Group().PublicKey, UntilNow: true},
		&grpc.GenericServerStream[protocoltypes.GroupMessageList_Request, protocoltypes.GroupMessageEvent]{ServerStream: fs})
	if c.Err() == context.DeadlineExceeded {
		vfInfra("GroupMessageList did not end")
	}
	return fs.msgs, err
}

func vfSERPCMetadata(gc *GroupContext) ([]*protocoltypes.GroupMetadataEvent, error) {
	c, cancel := context.WithTimeout(context.Background(), 20*time.Second)
	defer cancel()
	fs := &vfSEStream[protocoltypes.GroupMetadataEvent]{ctx: c}
	err := vfSEService(gc).GroupMetadataList(&protocoltypes.GroupMetadataList_Request{GroupPk: gc.Group().PublicKey, UntilNow: true},
		&grpc.GenericServerStream[protocoltypes.GroupMetadataList_Request, protocoltypes.GroupMetadataEvent]{ServerStream: fs})
	if c.Err() == context.DeadlineExceeded {
		vfInfra("GroupMetadataList did not end")
	}
	return fs.msgs, err
}

// vfSESync: `to` joins entry e with the part of its causal past it lacks; returns the ids that are new at `to`
func vfSESync(ctx context.Context, to, from iface.Store, e ipfslog.Entry) []string {
	before := map[string]bool{}
	for _, id := range vfEntryIDs(to) {
		before[id] = true
	}
	vfSyncTo(ctx, to, []ipfslog.Entry{e}, vfPast(from, e.GetHash()))
	fresh := []string{}
	for _, id := range vfEntryIDs(to) {
		if !before[id] {
			fresh = append(fresh, id)
		}
	}
	sort.Strings(fresh)
	return fresh
}

// ------------------------------------------------------------------ message part (C01)

type vfSEMsgW struct {
	ctx     context.Context
	gtype   string
	shared  bool
	win     int
	V       *vfReplica
	snd     map[string]*vfReplica // d1 d2
	wr      *vfReplica            // the attacker's writer
	xs      secretstore.SecretStore
	xds     datastore.Batching
	groups  map[string]*protocoltypes.Group
	gpk     map[string]crypto.PubKey
	dvOf    map[string]string                   // group label + hex(device pk) -> device-key label
	pkOf    map[string][]byte                   // device-key label -> raw pk
	devPK   map[string]map[string]crypto.PubKey // group -> sender -> device key
	annV    map[string]map[string][]byte        // group -> sender -> announcement addressed to V's member
	xsign   map[string]func([]byte) []byte
	closers []*vfReplica
}

func vfSEDK(shared bool, g, d string) string {
	if shared {
		return d
	}
	return g + "." + d
}

func (w *vfSEMsgW) ss(d string) secretstore.SecretStore {
	if d == "x" {
		return w.xs
	}
	return w.snd[d].ss
}

func vfSENewMsgWorld(rw *vfRWorld, gtype string, win int) *vfSEMsgW {
	ctx := context.Background()
	w := &vfSEMsgW{ctx: ctx, gtype: gtype, shared: gtype == "account", win: win, snd: map[string]*vfReplica{},
		groups: map[string]*protocoltypes.Group{}, gpk: map[string]crypto.PubKey{}, dvOf: map[string]string{}, pkOf: map[string][]byte{},
		devPK: map[string]map[string]crypto.PubKey{}, annV: map[string]map[string][]byte{}, xsign: map[string]func([]byte) []byte{}}
	w.xds = dssync.MutexWrap(datastore.NewMapDatastore())
	var err error
	w.xs, err = secretstore.NewSecretStore(w.xds, &secretstore.NewSecretStoreOptions{PreComputedKeysCount: win})
	vfSEMust(err, "attacker secret store")
	share := func(from, to secretstore.SecretStore) {
		a, p, err := from.ExportAccountKeysForBackup()
		vfSEMust(err, "export keys")
		vfSEMust(to.ImportAccountKeys(a, p), "import keys")
	}
	memberOf := func(s secretstore.SecretStore) crypto.PubKey {
		_, omd, err := s.GetGroupForAccount()
		vfSEMust(err, "account")
		return omd.Member()
	}
	switch gtype {
	case "account":
		w.V = vfSEAddDevice(rw, "V", "", win, nil)
		w.snd["d1"] = vfSEAddDevice(rw, "d1", "V", win, nil)
		w.snd["d2"] = vfSEAddDevice(rw, "d2", "V", win, nil)
		share(w.V.ss, w.xs)
		w.groups["g1"] = w.V.AccountGroup()
		z, err := secretstore.NewInMemSecretStore(nil)
		vfSEMust(err, "account Z")
		w.groups["g2"], err = w.V.ss.GetGroupForContact(memberOf(z))
		vfSEMust(err, "contact group with Z")
	case "contact":
		// account X: V, d2; account Y: d1, x; g1 = the contact group of X and Y, g2 = a multi-member group
		w.V = vfSEAddDevice(rw, "V", "", win, nil)
		w.snd["d2"] = vfSEAddDevice(rw, "d2", "V", win, nil)
		w.snd["d1"] = vfSEAddDevice(rw, "d1", "", win, nil)
		share(w.snd["d1"].ss, w.xs)
		w.groups["g1"], err = w.V.ss.GetGroupForContact(memberOf(w.snd["d1"].ss))
		vfSEMust(err, "contact group")
		w.groups["g2"], _, err = protocoltypes.NewGroupMultiMember()
		vfSEMust(err, "second group")
	case "multi":
		w.V = vfSEAddDevice(rw, "V", "", win, nil)
		w.snd["d1"] = vfSEAddDevice(rw, "d1", "", win, nil)
		w.snd["d2"] = vfSEAddDevice(rw, "d2", "", win, nil)
		w.groups["g1"], _, err = protocoltypes.NewGroupMultiMember()
		vfSEMust(err, "group")
		w.groups["g2"], _, err = protocoltypes.NewGroupMultiMember()
		vfSEMust(err, "second group")
	default:
		vfInfra("unknown group type %q", gtype)
	}
	w.wr = vfSEAddDevice(rw, "wr", "", win, nil)
	w.closers = []*vfReplica{w.V, w.snd["d1"], w.snd["d2"], w.wr}
	for _, gl := range []string{"g1", "g2"} {
		g := w.groups[gl]
		pk, err := g.GetPubKey()
		vfSEMust(err, "group pk")
		w.gpk[gl] = pk
		for _, r := range w.closers {
			r.OpenGroup(g)
		}
		vfSEMust(w.xs.PutGroup(ctx, g), "put group")
		w.devPK[gl] = map[string]crypto.PubKey{}
		w.annV[gl] = map[string][]byte{}
		vomd, err := w.V.ss.GetOwnMemberDeviceForGroup(g)
		vfSEMust(err, "V member device")
		xomd, err := w.xs.GetOwnMemberDeviceForGroup(g)
		vfSEMust(err, "x member device")
		w.xsign[gl] = func(b []byte) []byte { s, err := xomd.DeviceSign(b); vfSEMust(err, "attacker signs"); return s }
		for _, d := range []string{"d1", "d2", "x", "V"} {
			var omd secretstore.OwnMemberDevice
			if d == "V" {
				omd = vomd
			} else {
				omd, err = w.ss(d).GetOwnMemberDeviceForGroup(g)
				vfSEMust(err, "member device")
			}
			lab := vfSEDK(w.shared, gl, d)
			raw := vfSERaw(omd.Device())
			if prev, ok := w.pkOf[lab]; ok && !bytes.Equal(prev, raw) {
				vfInfra("device key of %s differs between groups in a world assumed to share it", d)
			}
			w.pkOf[lab] = raw
			w.dvOf[gl+hex.EncodeToString(raw)] = lab
			if d == "V" {
				continue
			}
			w.devPK[gl][d] = omd.Device()
			// announcements are taken now, at counter 0, whenever they are registered later
			w.annV[gl][d], err = w.ss(d).GetShareableChainKey(ctx, g, vomd.Member())
			vfSEMust(err, "announcement for V")
			if d != "x" {
				a, err := w.ss(d).GetShareableChainKey(ctx, g, xomd.Member())
				vfSEMust(err, "announcement for x")
				vfSEMust(w.xs.RegisterChainKey(ctx, g, omd.Device(), a), "x registers")
			}
		}
	}
	return w
}

func (w *vfSEMsgW) ms(r *vfReplica, gl string) *MessageStore {
	gc := r.gcs[w.groups[gl].GroupIDAsString()]
	if gc == nil {
		vfInfra("group %s not open on %s", gl, r.name)
	}
	return gc.MessageStore()
}

// ---- attacker library (port of harness/pkg/secretstore/vf_envelope_verif_test.go to the root package)

func (w *vfSEMsgW) advKey(gl string, devpk []byte, k uint64) (*[32]byte, error) {
	ghex, dhex, ks := hex.EncodeToString(vfSERaw(w.gpk[gl])), hex.EncodeToString(devpk), strconv.FormatUint(k, 10)
	b, err := w.xds.Get(w.ctx, datastore.KeyWithNamespaces([]string{"precomputedMessageKeys", ghex, dhex, ks}))
	if err != nil {
		res, qerr := w.xds.Query(w.ctx, query.Query{Prefix: "/precomputedMessageKeys"})
		if qerr == nil {
			ents, _ := res.Rest()
			var cand [][]byte
			for _, e := range ents {
				if strings.HasSuffix(e.Key, "/"+dhex+"/"+ks) {
					if strings.Contains(e.Key, ghex) {
						cand = [][]byte{e.Value}
						break
					}
					cand = append(cand, e.Value)
				}
			}
			if len(cand) == 1 {
				b, err = cand[0], nil
			}
		}
	}
	if err != nil || len(b) != 32 {
		return nil, fmt.Errorf("attacker does not hold message key %s/%x/%d: %v", gl, devpk[:4], k, err)
	}
	var key [32]byte
	copy(key[:], b)
	return &key, nil
}

func vfSENonce(k uint64) *[24]byte {
	var n [24]byte
	for i := 0; i < 8; i++ {
		n[7-i] = byte(k >> (8 * uint(i)))
	}
	return &n
}

type vfSEMsg struct {
	id, gl, d, plabel string
	env               []byte // sealed envelope (operation value)
	clear             []byte // what was sealed (marshalled EncryptedMessage)
	sig               []byte
	learned           bool
	entry             ipfslog.Entry
	src               iface.Store
}

func (w *vfSEMsgW) advLearn(m *vfSEMsg) error {
	menv, hdr, err := w.xs.OpenEnvelopeHeaders(m.env, w.groups[m.gl])
	if err != nil {
		return fmt.Errorf("attacker cannot read headers of an honest envelope: %v", err)
	}
	key, err := w.advKey(m.gl, hdr.DevicePk, hdr.Counter)
	if err != nil {
		return err
	}
	clear, ok := secretbox.Open(nil, menv.Message, vfSENonce(hdr.Counter), key)
	if !ok {
		return fmt.Errorf("attacker cannot decrypt an honest envelope with the key it holds")
	}
	m.clear, m.sig, m.learned = clear, hdr.Sig, true
	return nil
}

func vfSEAssemble(hdrBox, body, nonce []byte) []byte {
	b, err := proto.Marshal(&protocoltypes.MessageEnvelope{MessageHeaders: hdrBox, Message: body, Nonce: nonce})
	vfSEMust(err, "marshal envelope")
	return b
}

func vfSEStr(m map[string]any, k string) string {
	s, _ := m[k].(string)
	return s
}

func vfSEEncMsg(raw []byte) []byte {
	b, err := proto.Marshal(&protocoltypes.EncryptedMessage{Plaintext: raw, ProtocolMetadata: &protocoltypes.ProtocolMetadata{}})
	vfSEMust(err, "marshal message")
	return b
}

func (w *vfSEMsgW) forge(a map[string]any, rnd *rand.Rand, hon map[string]*vfSEMsg, rawPayload func(string) []byte) ([]byte, error) {
	hs, dv, pl, sgl := vfSEStr(a, "hs"), vfSEStr(a, "dv"), vfSEStr(a, "pl"), vfSEStr(a, "sg")
	ct, _ := vfNum(a, "ct")
	bn, _ := vfNum(a, "bn")
	kk, _ := vfNum(a, "kk")
	devpk, ok := w.pkOf[dv]
	if !ok {
		vfInfra("unknown device key label %q", dv)
	}
	var key *[32]byte
	if vfSEStr(a, "kg") == "junk" {
		key = new([32]byte)
		rnd.Read(key[:])
	} else {
		kpk, ok := w.pkOf[vfSEStr(a, "kd")]
		if !ok {
			vfInfra("unknown key device label %q", vfSEStr(a, "kd"))
		}
		var err error
		if key, err = w.advKey(vfSEStr(a, "kg"), kpk, uint64(kk)); err != nil {
			return nil, err
		}
	}
	// the clear bytes of an honest payload are what the attacker decrypted; a payload of its own is marshalled afresh
	var p []byte
	own := true
	for _, m := range hon {
		if m.plabel == pl {
			own = false
			if !m.learned {
				return nil, fmt.Errorf("attacker did not learn payload %s", pl)
			}
			p = m.clear
		}
	}
	if own {
		p = vfSEEncMsg(rawPayload(pl))
	}
	var sig []byte
	if sgl == "own" {
		sig = w.xsign[hs](p)
	} else {
		m, ok := hon[sgl]
		if !ok {
			vfInfra("signature source %q unknown", sgl)
		}
		if !m.learned {
			return nil, fmt.Errorf("attacker did not learn the signature of %s", sgl)
		}
		sig = m.sig
	}
	hb, err := proto.Marshal(&protocoltypes.MessageHeaders{Counter: uint64(ct), DevicePk: devpk, Sig: sig})
	vfSEMust(err, "marshal headers")
	var hn [24]byte
	rnd.Read(hn[:])
	hdrBox := secretbox.Seal(nil, hb, &hn, w.groups[hs].GetSharedSecret())
	body := secretbox.Seal(nil, p, vfSENonce(uint64(bn)), key)
	return vfSEAssemble(hdrBox, body, hn[:]), nil
}

type vfSESpan struct {
	fld    string
	lo, hi int
}

func vfSELayout(b []byte) []vfSESpan {
	var out []vfSESpan
	names := map[protowire.Number]string{1: "hdr", 2: "body", 3: "nonce"}
	i := 0
	for i < len(b) {
		num, typ, n := protowire.ConsumeTag(b[i:])
		if n < 0 || typ != protowire.BytesType {
			vfInfra("unexpected envelope wire format")
		}
		_, m := protowire.ConsumeVarint(b[i+n:])
		v, l := protowire.ConsumeBytes(b[i+n:])
		if m < 0 || l < 0 {
			vfInfra("unexpected envelope wire format (len)")
		}
		out = append(out, vfSESpan{"frame", i, i + n + m})
		name, ok := names[num]
		if !ok {
			vfInfra("unexpected envelope field %d", num)
		}
		out = append(out, vfSESpan{name, i + n + m, i + n + m + len(v)})
		i += n + l
	}
	return out
}

// vfSEBits: nflip bit positions of one field: its first and last bit and seeded ones in between
func vfSEBits(spans []vfSESpan, fld string, nflip int, rnd *rand.Rand) []int {
	var all []int
	for _, sp := range spans {
		if sp.fld == fld {
			for j := sp.lo * 8; j < sp.hi*8; j++ {
				all = append(all, j)
			}
		}
	}
	if len(all) <= nflip {
		return all
	}
	seen := map[int]bool{all[0]: true, all[len(all)-1]: true}
	for len(seen) < nflip {
		seen[all[rnd.Intn(len(all))]] = true
	}
	out := []int{}
	for k := range seen {
		out = append(out, k)
	}
	sort.Ints(out)
	return out
}

func vfSEEmptyField(b []byte, fld string) []byte {
	e := &protocoltypes.MessageEnvelope{}
	vfSEMust(proto.Unmarshal(b, e), "unmarshal honest envelope")
	switch fld {
	case "e_nonce":
		e.Nonce = nil
	case "e_hdr":
		e.MessageHeaders = nil
	case "e_body":
		e.Message = nil
	}
	return vfSEAssemble(e.MessageHeaders, e.Message, e.Nonce)
}

var vfSESizesThorough = []int{0, 1, 2, 15, 16, 17, 63, 64, 65, 1024, 4096, 16384, 65530, 65531, 65535, 65536}

// quick tier: the small sizes and both ends of the property's "1 byte .. 64 KiB"
var vfSESizesQuick = []int{0, 1, 2, 15, 16, 17, 63, 64, 65, 1024, 65536, 65531}

func vfSESize(i int) int {
	if os.Getenv("VERIF_TIER") == "thorough" {
		return vfSESizesThorough[i%len(vfSESizesThorough)]
	}
	return vfSESizesQuick[i%len(vfSESizesQuick)]
}

// ---- the victim's side

type vfSEVic struct {
	w    *vfSEMsgW
	subs map[string]event.Subscription // group label -> subscription on V's message store bus
}

func (v *vfSEVic) subscribe() {
	for _, s := range v.subs {
		s.Close()
	}
	v.subs = map[string]event.Subscription{}
	for _, gl := range []string{"g1", "g2"} {
		s, err := v.w.ms(v.w.V, gl).EventBus().Subscribe(new(*protocoltypes.GroupMessageEvent), eventbus.BufSize(8192))
		vfSEMust(err, "subscribe")
		v.subs[gl] = s
	}
}

func vfSEMsgRun(t testing.TB, rw *vfRWorld, sc vfScript) []map[string]any {
	win, _ := vfNum(sc.Cfg, "W")
	gtype, _ := sc.Cfg["gtype"].(string)
	prereg := true
	if b, ok := vfBool(sc.Cfg, "prereg"); ok {
		prereg = b
	}
	nflip, ok := vfNum(sc.Cfg, "nflip")
	if !ok {
		nflip = 6
	}
	w := vfSENewMsgWorld(rw, gtype, win)
	defer func() { vfSEClose(w.closers...) }()
	ctx := w.ctx
	rnd := vfRand(int64(sc.ID)*7919 + 17)
	vic := &vfSEVic{w: w}
	vic.subscribe()
	defer func() {
		for _, s := range vic.subs {
			s.Close()
		}
	}()

	hon := map[string]*vfSEMsg{}
	var honOrder []string
	raws := map[string][]byte{}
	var plabels []string
	rawPayload := func(l string) []byte {
		if b, ok := raws[l]; ok {
			return b
		}
		n := vfSESize(sc.ID + len(plabels))
		b := make([]byte, n)
		rnd.Read(b)
		raws[l] = b
		plabels = append(plabels, l)
		return b
	}
	plabelOf := func(b []byte) string {
		for _, l := range plabels {
			if bytes.Equal(raws[l], b) {
				return l
			}
		}
		return "?"
	}
	labelOf := map[string]string{} // entry hash -> label
	honOf := map[string]string{}   // entry label -> label of the honest envelope whose bytes it carries
	type posted struct {
		entry ipfslog.Entry
		src   iface.Store
	}
	post := map[string]posted{} // "<id>@<group>" -> entry written by the attacker
	forged := map[string][]byte{}
	nposted := map[string]int{}
	var tBase *vfSEMsg
	var tFld string
	ncopy, nt := 0, 0
	out := []map[string]any{{"ev": "reset", "id": sc.ID, "gtype": gtype}}

	honLabelOfBytes := func(env []byte) string {
		for _, l := range honOrder {
			if bytes.Equal(hon[l].env, env) {
				return l
			}
		}
		return ""
	}
	// the attacker appends an operation of its choice to the message log of group gl
	advAppend := func(gl string, env []byte, label string) posted {
		st := w.ms(w.wr, gl)
		e, err := st.AddOperation(ctx, operation.NewOperation(nil, "ADD", env), nil)
		vfSEMust(err, "attacker append")
		// every member writes with the group's log identity: the first entry of the attacker's log that carries the
		// unchanged bytes of the first entry of an honest log IS that entry (same clock, same payload, same signature)
		if _, same := labelOf[e.GetHash().String()]; !same {
			labelOf[e.GetHash().String()] = label
			honOf[label] = honLabelOfBytes(env)
		}
		return posted{entry: e, src: st}
	}
	describe := func(evt *protocoltypes.GroupMessageEvent, gl string) map[string]any {
		id := "?"
		if c, err := vfSECid(evt.GetEventContext().GetId()); err == nil {
			if l, ok := labelOf[c]; ok {
				id = l
			}
		}
		dv, ok := w.dvOf[gl+hex.EncodeToString(evt.GetHeaders().GetDevicePk())]
		if !ok {
			dv = "?"
		}
		return map[string]any{"e": id, "dv": dv, "ct": int(evt.GetHeaders().GetCounter()), "pl": plabelOf(evt.GetMessage()),
			"gok": bytes.Equal(evt.GetEventContext().GetGroupPk(), w.groups[gl].PublicKey)}
	}
	// barrier: sentinel rounds on V's store of group gl until one round is silent
	restless := false
	barrier := func(gl string, minRounds int) {
		if restless {
			return
		}
		for round := 0; ; round++ {
			if round > 40 {
				// V keeps handing events to subscribers although nothing arrives any more
				out = append(out, map[string]any{"ev": "restless", "g": gl})
				restless = true
				return
			}
			tag := make([]byte, 12)
			rnd.Read(tag)
			op, err := w.ms(w.V, gl).AddMessage(ctx, tag)
			vfSEMust(err, "sentinel")
			sid := op.GetEntry().GetHash().String()
			labelOf[sid] = "s"
			n := 0
			deadline := time.After(30 * time.Second)
		wait:
			for {
				select {
				case x := <-vic.subs[gl].Out():
					evt := x.(*protocoltypes.GroupMessageEvent)
					c, _ := vfSECid(evt.GetEventContext().GetId())
					if c == sid {
						break wait
					}
					d := describe(evt, gl) // (an earlier sentinel emitted again shows up as an event of the unknown entry "s")
					d["ev"], d["g"] = "emit", gl
					out = append(out, d)
					n++
				case <-deadline:
					vfInfra("sentinel message of V was not emitted within 30s")
				}
			}
			if n == 0 && round+1 >= minRounds {
				break
			}
		}
		out = append(out, map[string]any{"ev": "quiet", "g": gl})
	}
	deliver := func(gl string, p posted) {
		fresh := vfSESync(ctx, w.ms(w.V, gl), p.src, p.entry)
		ents := []map[string]any{}
		for _, id := range fresh {
			l, ok := labelOf[id]
			if !ok {
				l = "?"
			}
			ents = append(ents, map[string]any{"e": l, "hon": honOf[l]})
		}
		sort.Slice(ents, func(i, j int) bool { return ents[i]["e"].(string) < ents[j]["e"].(string) })
		out = append(out, map[string]any{"ev": "arrive", "g": gl, "ents": ents})
		barrier(gl, 1)
	}
	lastK := map[string]int{} // group+device -> counter of the device's last honest seal
	annK0 := map[string]int{} // group+device -> counter at which the announcement V will use was made (0: at set-up)
	// the sender announces its chain key to V's member now (V joined after the sender's first messages)
	announce := func(gl, d string) {
		g := w.groups[gl]
		vomd, err := w.V.ss.GetOwnMemberDeviceForGroup(g)
		vfSEMust(err, "V member device")
		w.annV[gl][d], err = w.ss(d).GetShareableChainKey(ctx, g, vomd.Member())
		vfSEMust(err, "announcement for V")
		annK0[gl+d] = lastK[gl+d]
		out = append(out, map[string]any{"ev": "announce", "g": gl, "dv": vfSEDK(w.shared, gl, d), "k0": annK0[gl+d]})
	}
	register := func(gl, d string) {
		g := w.groups[gl]
		ann, k0 := w.annV[gl][d], annK0[gl+d]
		vfSEMust(w.V.ss.RegisterChainKey(ctx, g, w.devPK[gl][d], ann), "V registers chain key")
		w.ms(w.V, gl).ProcessMessageQueueForDevicePK(ctx, vfSERaw(w.devPK[gl][d]))
		out = append(out, map[string]any{"ev": "key", "g": gl, "dv": vfSEDK(w.shared, gl, d), "k0": k0,
			"known": w.V.ss.IsChainKeyKnownForDevice(ctx, w.gpk[gl], w.devPK[gl][d])})
	}
	items := func(evs []*protocoltypes.GroupMessageEvent, gl string) []map[string]any {
		its := []map[string]any{}
		for _, evt := range evs {
			d := describe(evt, gl)
			if d["e"] == "s" {
				continue
			}
			its = append(its, d)
		}
		return its
	}
	list := func(gl, phase string) {
		ch, err := w.ms(w.V, gl).ListEvents(ctx, nil, nil, false)
		vfSEMust(err, "ListEvents")
		var evs []*protocoltypes.GroupMessageEvent
		for e := range ch {
			evs = append(evs, e)
		}
		out = append(out, map[string]any{"ev": "list", "g": gl, "phase": phase, "items": items(evs, gl)})
	}
	rpclist := func(gl string) {
		evs, err := vfSERPCMessages(w.V.gcs[w.groups[gl].GroupIDAsString()])
		out = append(out, map[string]any{"ev": "list", "g": gl, "phase": "rpc", "items": items(evs, gl), "rpcok": err == nil})
	}
	reopen := func() {
		w.V.Reopen(w.groups["g1"], w.groups["g2"])
		vic.subscribe()
		out = append(out, map[string]any{"ev": "reopen"})
	}

	if prereg {
		for _, gl := range []string{"g1", "g2"} {
			for _, d := range []string{"d1", "d2", "x"} {
				register(gl, d)
			}
		}
	}
	for i, st := range sc.Steps {
		if restless {
			break
		}
		a := st.A
		switch st.Act {
		case "seal":
			d, gl, id, pl := vfSEStr(a, "d"), vfSEStr(a, "g"), vfSEStr(a, "id"), vfSEStr(a, "p")
			raw := rawPayload(pl)
			m := &vfSEMsg{id: id, gl: gl, d: d, plabel: pl}
			if d == "x" {
				env, err := w.xs.SealEnvelope(ctx, w.groups[gl], vfSEEncMsg(raw))
				vfSEMust(err, "attacker seals its own message")
				m.env = env
				hon[id] = m
				honOrder = append(honOrder, id)
				p := advAppend(gl, env, id)
				m.entry, m.src = p.entry, p.src
			} else {
				st := w.ms(w.snd[d], gl)
				op, err := st.AddMessage(ctx, raw)
				vfSEMust(err, "AddMessage")
				m.env, m.entry, m.src = op.GetValue(), op.GetEntry(), st
				hon[id] = m
				honOrder = append(honOrder, id)
				labelOf[m.entry.GetHash().String()] = id
				honOf[id] = id
			}
			_, hdr, err := w.xs.OpenEnvelopeHeaders(m.env, w.groups[gl])
			vfSEMust(err, "read headers of an honest envelope")
			hl, ok := w.dvOf[gl+hex.EncodeToString(hdr.DevicePk)]
			if !ok {
				hl = "?"
			}
			lastK[gl+d] = int(hdr.Counter)
			out = append(out, map[string]any{"ev": "seal", "i": i, "e": id, "d": d, "g": gl, "p": pl, "k": int(hdr.Counter),
				"dv": vfSEDK(w.shared, gl, d), "hdv": hl, "size": len(raw)})
		case "forge":
			id := vfSEStr(a, "id")
			if id == "" {
				id = "f"
			}
			for _, l := range honOrder {
				if !hon[l].learned {
					_ = w.advLearn(hon[l])
				}
			}
			env, ferr := w.forge(a, rnd, hon, rawPayload)
			ev := map[string]any{"ev": "forge", "i": i, "e": id, "n": len(env), "built": ferr == nil}
			if ferr != nil {
				ev["err"] = ferr.Error()
			} else {
				forged[id] = env
			}
			for _, k := range []string{"hs", "dv", "ct", "kg", "kd", "kk", "bn", "pl", "sg"} {
				ev[k] = a[k]
			}
			out = append(out, ev)
		case "tamper":
			tBase, tFld = hon[vfSEStr(a, "base")], vfSEStr(a, "fld")
			if tBase == nil {
				vfInfra("tamper of unknown envelope %v", a)
			}
			out = append(out, map[string]any{"ev": "tamper", "i": i, "base": vfSEStr(a, "base"), "fld": tFld})
		case "open":
			id, gl := vfSEStr(a, "id"), vfSEStr(a, "g")
			switch {
			case id == "t":
				if tBase == nil {
					vfInfra("open of a damaged envelope that was not built")
				}
				var last posted
				if strings.HasPrefix(tFld, "e_") {
					nt++
					last = advAppend(gl, vfSEEmptyField(tBase.env, tFld), "t"+strconv.Itoa(nt))
				} else {
					bits := vfSEBits(vfSELayout(tBase.env), tFld, nflip, vfRand(int64(sc.ID)*31+int64(i)))
					if len(bits) == 0 {
						vfInfra("no bit to flip in field %s", tFld)
					}
					for _, bit := range bits {
						mut := append([]byte(nil), tBase.env...)
						mut[bit/8] ^= 1 << uint(bit%8)
						nt++
						last = advAppend(gl, mut, "t"+strconv.Itoa(nt))
					}
				}
				deliver(gl, last)
			case forged[id] != nil || strings.HasPrefix(id, "f"):
				env := forged[id]
				if env == nil { // a forgery the attacker could not build is not presented
					break
				}
				p, ok := post[id+"@"+gl]
				if !ok {
					lab := id
					if nposted[id] > 0 { // the same forged bytes written into a second log
						lab = id + "_" + gl
					}
					nposted[id]++
					p = advAppend(gl, env, lab)
					post[id+"@"+gl] = p
				}
				deliver(gl, p)
			default:
				m, ok := hon[id]
				if !ok {
					vfInfra("open of unknown envelope %q", id)
				}
				if gl == m.gl {
					deliver(gl, posted{entry: m.entry, src: m.src})
					break
				}
				// an honest envelope of another group, or posted once more: the attacker writes the bytes into this log
				p, ok := post[id+"@"+gl]
				if !ok {
					ncopy++
					p = advAppend(gl, m.env, "c"+strconv.Itoa(ncopy))
					post[id+"@"+gl] = p
				}
				deliver(gl, p)
			}
		case "repost": // the unchanged honest envelope in a second entry of its own group
			id := vfSEStr(a, "id")
			m, ok := hon[id]
			if !ok {
				vfInfra("repost of unknown envelope %q", id)
			}
			p, ok := post[id+"@@"+m.gl]
			if !ok {
				ncopy++
				p = advAppend(m.gl, m.env, "c"+strconv.Itoa(ncopy))
				post[id+"@@"+m.gl] = p
			}
			deliver(m.gl, p)
		case "flush": // every honest entry V does not have yet, in the order of sealing
			for _, l := range honOrder {
				m := hon[l]
				if _, has := w.ms(w.V, m.gl).OpLog().Get(m.entry.GetHash()); !has {
					deliver(m.gl, posted{entry: m.entry, src: m.src})
				}
			}
		case "key":
			register(vfSEStr(a, "g"), vfSEStr(a, "d"))
			barrier(vfSEStr(a, "g"), 1)
		case "announce":
			announce(vfSEStr(a, "g"), vfSEStr(a, "d"))
		case "list":
			list(vfSEStr(a, "g"), "live")
			barrier(vfSEStr(a, "g"), 1)
		case "reopen":
			reopen()
		default:
			vfInfra("unknown action %q", st.Act)
		}
	}
	if restless {
		return out
	}
	for _, gl := range []string{"g1", "g2"} {
		barrier(gl, 2)
		list(gl, "live")
		rpclist(gl)
		barrier(gl, 1)
	}
	if restless {
		return out
	}
	reopen()
	for _, gl := range []string{"g1", "g2"} {
		list(gl, "reopen")
		barrier(gl, 1)
	}
	return out
}

func vfSECid(b []byte) (string, error) {
	c, err := cid.Cast(b)
	if err != nil {
		return "", err
	}
	return c.String(), nil
}

func TestVerifStoreEmitMsg(t *testing.T) {
	scripts := vfLoadScripts(t)
	tr := vfOpenTrace(t)
	defer tr.Close()
	vfSEWarm(t)
	var wg sync.WaitGroup
	ch := make(chan vfScript, 16)
	for k := 0; k < vfEnvInt("VERIF_WORKERS", 8); k++ {
		wg.Add(1)
		go func() {
			defer wg.Done()
			rw := vfNewRWorld(t)
			for sc := range ch {
				tr.EmitBlock(vfSEMsgRun(t, rw, sc))
			}
		}()
	}
	for _, sc := range scripts {
		ch <- sc
	}
	close(ch)
	wg.Wait()
	t.Logf("VERIF-DONE scripts=%d events=%d", len(scripts), tr.n)
}

// go-ipfs-log initialises its CBOR atlas lazily without synchronisation: one serial write first
func vfSEWarm(t testing.TB) {
	w0 := vfNewRWorld(t)
	r0 := w0.AddDevice("warm", "")
	gc0 := r0.OpenGroup(r0.AccountGroup())
	if _, err := gc0.MetadataStore().ContactRequestEnable(context.Background()); err != nil {
		vfInfra("warm-up write: %v", err)
	}
	if _, err := gc0.MessageStore().AddMessage(context.Background(), []byte("warm")); err != nil {
		vfInfra("warm-up write: %v", err)
	}
	gc0.Close()
	r0.db.Close()
}

// ------------------------------------------------------------------ metadata part (C03)

const vfSEFlood = 300 // > subscription buffer of the metadata store's event loop (128)

type vfSEMetaW struct {
	ctx    context.Context
	kind   string
	R, R0  *vfReplica
	H, E   *vfReplica
	g      *protocoltypes.Group
	mw     *vfMW
	sub    event.Subscription // R's metadata store: EventMetadataReceived + GroupMetadataEvent
	flood  map[string]event.Emitter
	labels map[string]int  // entry hash -> step number (setup entries: 1000+)
	noctl  map[string]bool // entry hashes the control replica was not given
}

func vfSECloneDS(ctx context.Context, src datastore.Batching) datastore.Batching {
	dst := dssync.MutexWrap(datastore.NewMapDatastore())
	res, err := src.Query(ctx, query.Query{})
	vfSEMust(err, "query datastore")
	ents, err := res.Rest()
	vfSEMust(err, "read datastore")
	for _, e := range ents {
		vfSEMust(dst.Put(ctx, datastore.NewKey(e.Key), e.Value), "copy datastore")
	}
	return dst
}

// vfSEPrep: a replica whose orbit-db is not open yet
func vfSEPrep(w *vfRWorld, name string, from secretstore.SecretStore, ds datastore.Batching) *vfReplica {
	if ds == nil {
		ds = dssync.MutexWrap(datastore.NewMapDatastore())
	}
	r := &vfReplica{name: name, w: w, ds: ds, gcs: map[string]*GroupContext{}}
	var err error
	r.ss, err = secretstore.NewSecretStore(ds, nil)
	vfSEMust(err, "secret store")
	if from != nil {
		a, p, err := from.ExportAccountKeysForBackup()
		vfSEMust(err, "export keys")
		vfSEMust(r.ss.ImportAccountKeys(a, p), "import keys")
	}
	if _, _, err := r.ss.GetGroupForAccount(); err != nil {
		vfInfra("account keys: %v", err)
	}
	w.reps[name] = r
	return r
}

func (w *vfSEMetaW) ms(r *vfReplica) *MetadataStore {
	gc := r.gcs[w.g.GroupIDAsString()]
	if gc == nil {
		vfInfra("group not open on %s", r.name)
	}
	return gc.MetadataStore()
}

// openR: V's group context on a bus the driver subscribed to BEFORE the store exists (so that
// anything the store emits while loading its log is seen)
func (w *vfSEMetaW) openR() {
	if w.sub != nil {
		w.sub.Close()
	}
	bus := eventbus.NewBus()
	sub, err := bus.Subscribe([]any{new(EventMetadataReceived), new(*protocoltypes.GroupMetadataEvent)}, eventbus.BufSize(16384))
	vfSEMust(err, "subscribe")
	w.sub = sub
	t := true
	gc, err := w.R.db.OpenGroup(w.ctx, w.g, &orbitdb.CreateDBOptions{LocalOnly: &t, EventBus: bus})
	vfSEMust(err, "open group on R")
	w.R.gcs[w.g.GroupIDAsString()] = gc
	if gc.MetadataStore().EventBus() != bus {
		vfInfra("the metadata store of R does not use the bus it was given")
	}
}

func (w *vfSEMetaW) emitters() {
	for _, e := range w.flood {
		e.Close()
	}
	w.flood = map[string]event.Emitter{}
	for _, r := range []*vfReplica{w.R, w.R0} {
		e, err := w.ms(r).EventBus().Emitter(new(stores.EventReplicated))
		vfSEMust(err, "emitter")
		w.flood[r.name] = e
	}
}

func vfSENewMetaWorld(rw *vfRWorld, kind string) *vfSEMetaW {
	ctx := context.Background()
	w := &vfSEMetaW{ctx: ctx, kind: kind, labels: map[string]int{}, noctl: map[string]bool{}}
	var gsk crypto.PrivKey
	var err error
	w.R = vfSEPrep(rw, "R", nil, nil)
	switch kind {
	case "mm":
		w.H = vfSEPrep(rw, "H", nil, nil)
		w.E = vfSEPrep(rw, "E", nil, nil)
		w.g, gsk, err = protocoltypes.NewGroupMultiMember()
		vfSEMust(err, "group")
	case "acct":
		w.H = vfSEPrep(rw, "H", w.R.ss, nil)
		w.E = vfSEPrep(rw, "E", w.R.ss, nil)
		w.g = w.R.AccountGroup()
		gsk, err = w.R.ss.GetAccountPrivateKey()
		vfSEMust(err, "account key")
	case "contact":
		// account X: R and H; account Y: E
		w.H = vfSEPrep(rw, "H", w.R.ss, nil)
		w.E = vfSEPrep(rw, "E", nil, nil)
		_, eomd, err := w.E.ss.GetGroupForAccount()
		vfSEMust(err, "account of E")
		w.g, err = w.R.ss.GetGroupForContact(eomd.Member())
		vfSEMust(err, "contact group")
	default:
		vfInfra("unknown world %q", kind)
	}
	// the control replica: a copy of R's key material, taken after the keys for this group exist
	romd, err := w.R.ss.GetOwnMemberDeviceForGroup(w.g)
	vfSEMust(err, "member device of R")
	w.R0 = vfSEPrep(rw, "R0", nil, vfSECloneDS(ctx, w.R.ds))
	comd, err := w.R0.ss.GetOwnMemberDeviceForGroup(w.g)
	vfSEMust(err, "member device of the control")
	if !bytes.Equal(vfSERaw(romd.Device()), vfSERaw(comd.Device())) || !bytes.Equal(vfSERaw(romd.Member()), vfSERaw(comd.Member())) {
		vfInfra("the control replica does not have the keys of R")
	}
	for _, r := range []*vfReplica{w.R, w.R0, w.H, w.E} {
		r.open()
	}
	w.openR()
	for _, r := range []*vfReplica{w.R0, w.H, w.E} {
		r.OpenGroup(w.g)
	}
	w.emitters()
	hmd, err := w.H.ss.GetOwnMemberDeviceForGroup(w.g)
	vfSEMust(err, "member device of H")
	emd, err := w.E.ss.GetOwnMemberDeviceForGroup(w.g)
	vfSEMust(err, "member device of E")
	w.mw = vfNewMW(w.g, gsk, hmd, emd)
	// every member announces its device through the regular API; V and the control learn all of them
	n := 1000
	for _, r := range []*vfReplica{w.R, w.H, w.E} {
		op, err := w.ms(r).AddDeviceToGroup(ctx)
		vfSEMust(err, "AddDeviceToGroup")
		if op == nil {
			vfInfra("device of %s was not announced", r.name)
		}
		w.labels[op.GetEntry().GetHash().String()] = n
		n++
		for _, to := range []*vfReplica{w.R, w.R0} {
			if to != r {
				vfSESync(ctx, w.ms(to), w.ms(r), op.GetEntry())
			}
		}
	}
	w.barrier()
	w.drain()
	return w
}

func (w *vfSEMetaW) barrier() {
	for _, r := range []*vfReplica{w.R, w.R0} {
		for i := 0; i < vfSEFlood; i++ {
			if err := w.flood[r.name].Emit(stores.EventReplicated{}); err != nil {
				vfInfra("barrier emit: %v", err)
			}
		}
	}
}

type vfSEMetaSeen struct {
	id  string
	emr bool
	ty  string
	pay []byte
}

func (w *vfSEMetaW) drain() []vfSEMetaSeen {
	var out []vfSEMetaSeen
	for {
		select {
		case x := <-w.sub.Out():
			var me *protocoltypes.GroupMetadataEvent
			isEMR := false
			switch v := x.(type) {
			case EventMetadataReceived:
				me, isEMR = v.MetaEvent, true
			case *protocoltypes.GroupMetadataEvent:
				me = v
			default:
				continue
			}
			id, _ := vfSECid(me.GetEventContext().GetId())
			out = append(out, vfSEMetaSeen{id: id, emr: isEMR, ty: vfTypeName(me.GetMetadata().GetEventType()), pay: me.GetMetadata().GetPayload()})
		default:
			return out
		}
	}
}

// vfSEAppend: raw append of an envelope; a panic of the store's own index is reported, not propagated
func vfSEAppend(ctx context.Context, ms *MetadataStore, env []byte) (ent ipfslog.Entry, err error, crashed string) {
	defer func() {
		if x := recover(); x != nil {
			crashed = fmt.Sprint(x)
		}
	}()
	ent, err = ms.AddOperation(ctx, operation.NewOperation(nil, "ADD", env), nil)
	if err != nil && strings.Contains(err.Error(), "unable to update index") {
		// the entry is in the log, the store's index refuses to work from now on
		crashed, err = err.Error(), nil
	}
	return
}

// vfSEGuard runs f; a panic of the code under test in this goroutine is reported
func vfSEGuard(f func()) (crashed string) {
	defer func() {
		if x := recover(); x != nil {
			if s, ok := x.(string); ok && strings.HasPrefix(s, "VERIF-INFRA") {
				panic(x)
			}
			crashed = fmt.Sprint(x)
		}
	}()
	f()
	return ""
}

func vfSEListIDs(ctx context.Context, ms *MetadataStore) []string {
	ch, err := ms.ListEvents(ctx, nil, nil, false)
	vfSEMust(err, "ListEvents")
	out := []string{}
	for e := range ch {
		id, _ := vfSECid(e.GetEventContext().GetId())
		out = append(out, id)
	}
	return out
}

func vfSEEqual(a, b []string) bool {
	if len(a) != len(b) {
		return false
	}
	for i := range a {
		if a[i] != b[i] {
			return false
		}
	}
	return true
}

// the listing of V without the entries the control was not given == the listing of the control
func (w *vfSEMetaW) listsAgree(lr, l0 []string) bool {
	f := []string{}
	for _, id := range lr {
		if !w.noctl[id] {
			f = append(f, id)
		}
	}
	return vfSEEqual(f, l0)
}

func vfSEMetaRun(t testing.TB, rw *vfRWorld, sc vfScript) []map[string]any {
	kind, _ := sc.Cfg["world"].(string)
	w := vfSENewMetaWorld(rw, kind)
	defer func() {
		if w.sub != nil {
			w.sub.Close()
		}
		for _, e := range w.flood {
			e.Close()
		}
		vfSEClose(w.R, w.R0, w.H, w.E)
	}()
	ctx := w.ctx
	b := vfNewBuilder(w.mw, int64(sc.ID))
	out := []map[string]any{{"ev": "reset", "id": sc.ID, "world": kind}}
	type written struct {
		entry  ipfslog.Entry
		src    *MetadataStore
		writer string
		seq    int
		env    vfEnv
		tm     vfTerm
		a      map[string]any
		ctl    bool
		done   bool
	}
	wr := map[int]*written{}
	nwritten := map[string]int{}
	ndelivered := map[string]int{}
	for _, st := range sc.Steps {
		switch st.Act {
		case "write":
			tm := vfTermOf(st.A)
			e := b.envelope(tm)
			r := w.E
			if st.S == "H" {
				r = w.H
			}
			ent, err, crashed := vfSEAppend(ctx, w.ms(r), e.bytes)
			if crashed != "" {
				// the store of the writing replica itself panicked while indexing the entry it appended: recorded, the
				// history ends here (every other replica runs the same index code when the entry reaches it)
				out = append(out, map[string]any{"ev": "crash", "i": st.X, "w": st.S, "world": kind, "tm": st.A, "what": crashed})
				return out
			}
			vfSEMust(err, "append")
			nwritten[st.S]++
			wr[st.X] = &written{entry: ent, src: w.ms(r), writer: st.S, seq: nwritten[st.S], env: e, tm: tm, a: st.A, ctl: st.Y == 1}
			w.labels[ent.GetHash().String()] = st.X
			if st.Y != 1 {
				w.noctl[ent.GetHash().String()] = true
			}
		case "deliver":
			x := wr[st.X]
			if x == nil || x.done {
				vfInfra("deliver of an entry that was not written (or twice): %d", st.X)
			}
			// the head arrives with the part of its writer's log V lacks: one replication batch
			var batch []*written
			var idxs []int
			for k, y := range wr {
				if y.writer == x.writer && !y.done && y.seq <= x.seq {
					batch = append(batch, y)
					idxs = append(idxs, k)
				}
			}
			sort.Slice(batch, func(i, j int) bool { return batch[i].seq < batch[j].seq })
			sort.Ints(idxs)
			if batch[0].seq != ndelivered[x.writer]+1 {
				vfInfra("gap in the delivered part of the log of writer %s", x.writer)
			}
			ndelivered[x.writer] = x.seq
			anyCtl := false
			ids := map[string]*written{}
			for _, y := range batch {
				y.done = true
				anyCtl = anyCtl || y.ctl
				ids[y.entry.GetHash().String()] = y
			}
			w.drain()
			pre, _, _ := vfSnapshot(w.ms(w.R))
			fresh := vfSESync(ctx, w.ms(w.R), x.src, x.entry)
			// the control receives the same batch without the forged entries: the latest entry of the batch it may have
			for k := len(batch) - 1; k >= 0; k-- {
				if batch[k].ctl {
					vfSESync(ctx, w.ms(w.R0), x.src, batch[k].entry)
					break
				}
			}
			w.barrier()
			type cnt struct {
				emr, gme     int
				tyok, sameok bool
			}
			seen := map[string]*cnt{}
			stray := 0
			for _, sn := range w.drain() {
				y := ids[sn.id]
				if y == nil {
					stray++
					continue
				}
				c := seen[sn.id]
				if c == nil {
					c = &cnt{tyok: true, sameok: true}
					seen[sn.id] = c
				}
				if sn.emr {
					c.emr++
				} else {
					c.gme++
				}
				if sn.ty != y.tm.Ty {
					c.tyok = false
				}
				if !bytes.Equal(sn.pay, y.env.payload) {
					c.sameok = false
				}
			}
			post, _, _ := vfSnapshot(w.ms(w.R))
			ctlSnap, _, _ := vfSnapshot(w.ms(w.R0))
			lr, l0 := vfSEListIDs(ctx, w.ms(w.R)), vfSEListIDs(ctx, w.ms(w.R0))
			revs, rerr := vfSERPCMetadata(w.R.gcs[w.g.GroupIDAsString()])
			rids := []string{}
			for _, e := range revs {
				c, _ := vfSECid(e.GetEventContext().GetId())
				rids = append(rids, c)
			}
			has := func(l []string, id string) bool {
				for _, v := range l {
					if v == id {
						return true
					}
				}
				return false
			}
			for bi, y := range batch {
				id := y.entry.GetHash().String()
				c := seen[id]
				if c == nil {
					c = &cnt{tyok: true, sameok: true}
				}
				// "unchanged" can only be judged when nothing but entries withheld from the control arrived together
				out = append(out, map[string]any{"ev": "mdeliver", "i": idxs[bi], "w": y.writer, "world": kind, "tm": y.a, "helper": y.env.helper,
					"n": len(fresh), "nb": len(batch), "ctl": y.ctl, "emr": c.emr, "gme": c.gme, "stray": stray, "tyok": c.tyok, "sameok": c.sameok,
					"unch": anyCtl || vfSEEqual(pre, post), "eqc": vfSEEqual(post, ctlSnap), "leq": w.listsAgree(lr, l0),
					"listed": has(lr, id), "rpclisted": has(rids, id), "rpceq": rerr == nil && vfSEEqual(rids, lr)})
			}
		default:
			vfInfra("unknown action %q", st.Act)
		}
	}
	// close and reopen V and the control: index and listings are rebuilt from the logs
	live, _, _ := vfSnapshot(w.ms(w.R))
	w.drain()
	w.R.gcs[w.g.GroupIDAsString()].Close()
	delete(w.R.gcs, w.g.GroupIDAsString())
	w.R.Reopen()
	if c := vfSEGuard(w.openR); c != "" {
		// V cannot open its own database any more
		out = append(out, map[string]any{"ev": "rcrash", "world": kind, "what": c})
		return out
	}
	w.R0.Reopen(w.g)
	w.emitters()
	w.barrier()
	seen := w.drain()
	after, _, _ := vfSnapshot(w.ms(w.R))
	ctlSnap, _, _ := vfSnapshot(w.ms(w.R0))
	lr, l0 := vfSEListIDs(ctx, w.ms(w.R)), vfSEListIDs(ctx, w.ms(w.R0))
	listed := []int{}
	for _, id := range lr {
		if n, ok := w.labels[id]; ok {
			listed = append(listed, n)
		} else {
			listed = append(listed, -1)
		}
	}
	out = append(out, map[string]any{"ev": "mfinal", "world": kind, "eqc": vfSEEqual(after, ctlSnap), "leq": w.listsAgree(lr, l0),
		"listed": listed, "emitted": len(seen), "same": vfSEEqual(live, after), "nlog": len(vfEntryIDs(w.ms(w.R)))})
	return out
}

// vfSEPoisonProbe (observation outside C03, see the builder's report): a ContactAliasKeyAdded event that is correctly
// signed by an announced device but carries an alias key of the wrong size makes metadataStoreIndex.UpdateIndex return
// an error from its post-index action for as long as the entry is in the log.
func vfSEPoisonProbe(t testing.TB, rw *vfRWorld, sc vfScript) []map[string]any {
	kind, _ := sc.Cfg["world"].(string)
	w := vfSENewMetaWorld(rw, kind)
	defer func() {
		w.sub.Close()
		for _, e := range w.flood {
			e.Close()
		}
		vfSEClose(w.R, w.R0, w.H, w.E)
	}()
	ctx := w.ctx
	out := []map[string]any{{"ev": "reset", "id": sc.ID, "world": kind}}
	emd := w.mw.mds["A"]
	ev := &protocoltypes.ContactAliasKeyAdded{DevicePk: vfSERaw(emd.Device()), AliasPk: []byte{1, 2, 3, 4, 5}}
	sig, err := signProtoWithDevice(ev, emd)
	vfSEMust(err, "sign")
	env, err := sealGroupEnvelope(w.g, protocoltypes.EventType_EventTypeContactAliasKeyAdded, ev, sig)
	vfSEMust(err, "seal")
	_, _, oerr := vfOpenGroupEnvelope(w.g, env)
	_, werr := w.ms(w.E).AddOperation(ctx, operation.NewOperation(nil, "ADD", env), nil)
	heads := vfHeads(w.ms(w.E))
	sync := func(from *MetadataStore) (bool, int) {
		sub, err := w.ms(w.R).EventBus().Subscribe(new(stores.EventReplicated), eventbus.BufSize(64))
		vfSEMust(err, "subscribe")
		defer sub.Close()
		before := len(vfEntryIDs(w.ms(w.R)))
		vfSEMust(w.ms(w.R).Sync(ctx, vfHeads(from)), "sync")
		select {
		case <-sub.Out():
			return true, len(vfEntryIDs(w.ms(w.R))) - before
		case <-time.After(5 * time.Second):
			return false, len(vfEntryIDs(w.ms(w.R))) - before
		}
	}
	rep1, grew1 := sync(w.ms(w.E))
	_, ownErr := w.ms(w.R).SendAppMetadata(ctx, []byte("after"))
	_, herr := w.ms(w.H).SendAppMetadata(ctx, []byte("honest"))
	rep2, grew2 := sync(w.ms(w.H))
	w.barrier()
	errs := func(e error) string {
		if e == nil {
			return ""
		}
		return e.Error()
	}
	// second observation: a correctly signed AccountGroupJoined without a group makes the index handler dereference nil
	gj := &protocoltypes.AccountGroupJoined{DevicePk: vfSERaw(emd.Device())}
	gsig, err := signProtoWithDevice(gj, emd)
	vfSEMust(err, "sign")
	genv, err := sealGroupEnvelope(w.g, protocoltypes.EventType_EventTypeAccountGroupJoined, gj, gsig)
	vfSEMust(err, "seal")
	_, _, gerr := vfOpenGroupEnvelope(w.g, genv)
	_, _, gcrash := vfSEAppend(ctx, w.ms(w.E), genv)
	out = append(out, map[string]any{"ev": "probe", "world": kind, "what": "AccountGroupJoined without group", "opens": gerr == nil, "writer_index_panic": gcrash})
	out = append(out, map[string]any{"ev": "probe", "world": kind, "what": "ContactAliasKeyAdded with a 5-byte alias key", "opens": oerr == nil, "writer_err": errs(werr), "writer_heads": len(heads),
		"replicated_event_after_poison": rep1, "log_grew_by": grew1, "victim_own_write_err": errs(ownErr), "honest_write_err": errs(herr),
		"replicated_event_after_honest": rep2, "log_grew_by_honest": grew2, "emissions_seen": len(w.drain())})
	return out
}

func TestVerifStoreEmitMeta(t *testing.T) {
	scripts := vfLoadScripts(t)
	tr := vfOpenTrace(t)
	defer tr.Close()
	vfSEWarm(t)
	var wg sync.WaitGroup
	ch := make(chan vfScript, 16)
	for k := 0; k < vfEnvInt("VERIF_WORKERS", 8); k++ {
		wg.Add(1)
		go func() {
			defer wg.Done()
			rw := vfNewRWorld(t)
			for sc := range ch {
				if m, _ := sc.Cfg["mode"].(string); m == "poison" {
					tr.EmitBlock(vfSEPoisonProbe(t, rw, sc))
					continue
				}
				tr.EmitBlock(vfSEMetaRun(t, rw, sc))
			}
		}()
	}
	for _, sc := range scripts {
		ch <- sc
	}
	close(ch)
	wg.Wait()
	t.Logf("VERIF-DONE scripts=%d events=%d", len(scripts), tr.n)
}

var _ = fmt.Sprintf
var _ = stores.EventReplicated{}
