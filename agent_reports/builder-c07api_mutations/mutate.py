"""apply one named mutation to the worktree /tmp/wt_builder_c07api (api_contactrequest.go / api_contact.go only)"""
import sys, subprocess
WT = "/tmp/wt_builder_c07api"
name = sys.argv[1]
subprocess.run(["git", "-C", WT, "checkout", "--", "."], check=True)

def edit(fn, old, new, count=1):
    p = WT + "/" + fn
    s = open(p).read()
    assert s.count(old) >= 1, (fn, old)
    s = s.replace(old, new, count)
    open(p, "w").write(s)

CR = "api_contactrequest.go"
C = "api_contact.go"
DISCARD = '''	if _, err := accountGroup.MetadataStore().ContactRequestIncomingDiscard(ctx, pk); err != nil {
		return nil, errcode.ErrCode_ErrOrbitDBAppend.Wrap(err)
	}
'''
ACCEPT = '''	if _, err := accountGroup.MetadataStore().ContactRequestIncomingAccept(ctx, pk); err != nil {
		return nil, errcode.ErrCode_ErrOrbitDBAppend.Wrap(err)
	}

	if err = s.secretStore.PutGroup(ctx, group); err != nil {
		return nil, err
	}
'''
SEND = '''	if _, err := accountGroup.MetadataStore().ContactRequestOutgoingEnqueue(ctx, shareableContact, req.OwnMetadata); err != nil {
		return nil, errcode.ErrCode_ErrOrbitDBAppend.Wrap(err)
	}
'''
BLOCK = '''	if _, err := accountGroup.MetadataStore().ContactBlock(ctx, pk); err != nil {
		return nil, errcode.ErrCode_ErrOrbitDBAppend.Wrap(err)
	}
'''
UNBLOCK = '''	if _, err := accountGroup.MetadataStore().ContactUnblock(ctx, pk); err != nil {
		return nil, errcode.ErrCode_ErrOrbitDBAppend.Wrap(err)
	}
'''
if name == "M1_discard_swallows_error":
    edit(CR, DISCARD, '''	if _, err := accountGroup.MetadataStore().ContactRequestIncomingDiscard(ctx, pk); err != nil {
		s.logger.Debug("discard failed")
	}
''')
elif name == "M2_accept_putgroup_ignores_refusal":
    edit(CR, ACCEPT, '''	_, acceptErr := accountGroup.MetadataStore().ContactRequestIncomingAccept(ctx, pk)

	if err = s.secretStore.PutGroup(ctx, group); err != nil {
		return nil, err
	}
	_ = acceptErr
''')
elif name == "M3_send_drops_own_metadata":
    edit(CR, "ContactRequestOutgoingEnqueue(ctx, shareableContact, req.OwnMetadata)", "ContactRequestOutgoingEnqueue(ctx, shareableContact, nil)")
elif name == "M4_block_skips_store_guard":
    edit(C, BLOCK, '''	if _, err := accountGroup.MetadataStore().contactAction(ctx, pk, &protocoltypes.AccountContactBlocked{}, protocoltypes.EventType_EventTypeAccountContactBlocked); err != nil {
		return nil, errcode.ErrCode_ErrOrbitDBAppend.Wrap(err)
	}
''')
elif name == "M5_discard_is_block":
    edit(CR, "MetadataStore().ContactRequestIncomingDiscard(ctx, pk)", "MetadataStore().ContactBlock(ctx, pk)")
elif name == "M6_reference_answers_from_cache":
    edit(CR, '''	enabled, shareableContact := accountGroup.MetadataStore().GetIncomingContactRequestsStatus()
	rdvSeed := []byte(nil)

	if shareableContact != nil {
		rdvSeed = shareableContact.PublicRendezvousSeed
	}

	return &protocoltypes.ContactRequestReference_Reply{
		PublicRendezvousSeed: rdvSeed,
		Enabled:              enabled,
	}, nil
''', '''	if cachedReference != nil && cachedReferenceFor == accountGroup {
		return cachedReference, nil
	}

	enabled, shareableContact := accountGroup.MetadataStore().GetIncomingContactRequestsStatus()
	rdvSeed := []byte(nil)

	if shareableContact != nil {
		rdvSeed = shareableContact.PublicRendezvousSeed
	}

	cachedReferenceFor = accountGroup
	cachedReference = &protocoltypes.ContactRequestReference_Reply{
		PublicRendezvousSeed: rdvSeed,
		Enabled:              enabled,
	}
	return cachedReference, nil
''')
    edit(CR, "// ContactRequestReference retrieves", "var (\n\tcachedReference    *protocoltypes.ContactRequestReference_Reply\n\tcachedReferenceFor *GroupContext\n)\n\n// ContactRequestReference retrieves")
elif name == "M7_accept_putgroup_before_guard":
    # side effect before the lifecycle's verdict, error still reported: the property holds, only the secret store differs (drift)
    edit(CR, ACCEPT, '''	if err = s.secretStore.PutGroup(ctx, group); err != nil {
		return nil, err
	}

	if _, err := accountGroup.MetadataStore().ContactRequestIncomingAccept(ctx, pk); err != nil {
		return nil, errcode.ErrCode_ErrOrbitDBAppend.Wrap(err)
	}
''')
elif name == "M8_reset_replies_previous_seed":
    edit(CR, '''	if _, err := accountGroup.MetadataStore().ContactRequestReferenceReset(ctx); err != nil {
		return nil, errcode.ErrCode_ErrOrbitDBAppend.Wrap(err)
	}

	_, shareableContact := accountGroup.MetadataStore().GetIncomingContactRequestsStatus()
''', '''	_, shareableContact := accountGroup.MetadataStore().GetIncomingContactRequestsStatus()

	if _, err := accountGroup.MetadataStore().ContactRequestReferenceReset(ctx); err != nil {
		return nil, errcode.ErrCode_ErrOrbitDBAppend.Wrap(err)
	}
''')
elif name == "M9_send_already_added_is_success":
    edit(CR, SEND, '''	if _, err := accountGroup.MetadataStore().ContactRequestOutgoingEnqueue(ctx, shareableContact, req.OwnMetadata); err != nil {
		if errcode.Is(err, errcode.ErrCode_ErrContactRequestContactAlreadyAdded) {
			return &protocoltypes.ContactRequestSend_Reply{}, nil
		}
		return nil, errcode.ErrCode_ErrOrbitDBAppend.Wrap(err)
	}
''')
elif name == "M10_send_strips_contact_metadata":
    edit(CR, '''	shareableContact := req.Contact
	if shareableContact == nil {
		return nil, errcode.ErrCode_ErrInvalidInput
	}
''', '''	if req.Contact == nil {
		return nil, errcode.ErrCode_ErrInvalidInput
	}
	shareableContact := &protocoltypes.ShareableContact{Pk: req.Contact.Pk, PublicRendezvousSeed: req.Contact.PublicRendezvousSeed}
''')
elif name == "M11_unblock_of_unblocked_is_noop_success":
    edit(C, UNBLOCK, '''	if _, err := accountGroup.MetadataStore().ContactUnblock(ctx, pk); err != nil && !errcode.Is(err, errcode.ErrCode_ErrInvalidInput) {
		return nil, errcode.ErrCode_ErrOrbitDBAppend.Wrap(err)
	}
''')
elif name == "M12_share_resets_every_time":
    edit(CR, "	if !enabled || len(rdvSeed) == 0 {\n", "	if !enabled || len(rdvSeed) >= 0 {\n")
elif name == "M13_disable_calls_enable":
    edit(CR, "if _, err := accountGroup.MetadataStore().ContactRequestDisable(ctx); err != nil {", "if _, err := accountGroup.MetadataStore().ContactRequestEnable(ctx); err != nil {")
elif name == "M14_block_unknown_contact_refused":
    # the handler refuses to block a key that is not yet a contact (the lifecycle allows it: U -> B)
    edit(C, BLOCK, '''	if accountGroup.MetadataStore().checkContactStatus(pk, protocoltypes.ContactState_ContactStateUndefined) {
		return nil, errcode.ErrCode_ErrInvalidInput
	}

''' + BLOCK)
elif name == "R1_helper_and_other_error_codes":
    # behaviour-preserving: one helper resolves the account metadata store, refusals are wrapped with another code
    edit(CR, "// ContactRequestReference retrieves", '''func (s *service) accountMetadataStore() (*MetadataStore, error) {
	accountGroup := s.getAccountGroup()
	if accountGroup == nil {
		return nil, errcode.ErrCode_ErrGroupMissing
	}
	return accountGroup.MetadataStore(), nil
}

// ContactRequestReference retrieves''')
    edit(CR, '''	accountGroup := s.getAccountGroup()
	if accountGroup == nil {
		return nil, errcode.ErrCode_ErrGroupMissing
	}

	if _, err := accountGroup.MetadataStore().ContactRequestIncomingDiscard(ctx, pk); err != nil {
		return nil, errcode.ErrCode_ErrOrbitDBAppend.Wrap(err)
	}
''', '''	ms, err := s.accountMetadataStore()
	if err != nil {
		return nil, err
	}

	if _, err := ms.ContactRequestIncomingDiscard(ctx, pk); err != nil {
		return nil, errcode.ErrCode_ErrInternal.Wrap(err)
	}
''')
    edit(CR, '''	accountGroup := s.getAccountGroup()
	if accountGroup == nil {
		return nil, errcode.ErrCode_ErrGroupMissing
	}

	if _, err := accountGroup.MetadataStore().ContactRequestOutgoingEnqueue(ctx, shareableContact, req.OwnMetadata); err != nil {
		return nil, errcode.ErrCode_ErrOrbitDBAppend.Wrap(err)
	}
''', '''	ms, err := s.accountMetadataStore()
	if err != nil {
		return nil, err
	}

	if _, err = ms.ContactRequestOutgoingEnqueue(ctx, &protocoltypes.ShareableContact{
		Pk: shareableContact.Pk, PublicRendezvousSeed: shareableContact.PublicRendezvousSeed, Metadata: shareableContact.Metadata,
	}, append([]byte(nil), req.OwnMetadata...)); err != nil {
		return nil, errcode.ErrCode_ErrInternal.Wrap(err)
	}
''')
    edit(C, BLOCK, '''	if _, err := accountGroup.MetadataStore().ContactBlock(ctx, pk); err != nil {
		return nil, errcode.ErrCode_ErrInvalidInput.Wrap(err)
	}
''')
elif name == "R2_reorder_pure_steps":
    # behaviour-preserving: Accept looks the account group up before deriving the contact group (a pure computation),
    # ShareContact reads the reference through the service's own handler, Unblock checks the account group first
    edit(CR, '''	group, err := s.secretStore.GetGroupForContact(pk)
	if err != nil {
		return nil, errcode.ErrCode_ErrInternal.Wrap(err)
	}

	accountGroup := s.getAccountGroup()
	if accountGroup == nil {
		return nil, errcode.ErrCode_ErrGroupMissing
	}
''', '''	accountGroup := s.getAccountGroup()
	if accountGroup == nil {
		return nil, errcode.ErrCode_ErrGroupMissing
	}

	group, err := s.secretStore.GetGroupForContact(pk)
	if err != nil {
		return nil, errcode.ErrCode_ErrInternal.Wrap(err)
	}
''')
    edit(CR, '''		// Refresh the info.
		_, shareableContact = accountGroup.MetadataStore().GetIncomingContactRequestsStatus()
		rdvSeed = []byte(nil)

		if shareableContact != nil {
			rdvSeed = shareableContact.PublicRendezvousSeed
		}
''', '''		// Refresh the info.
		ref, err := s.ContactRequestReference(ctx, &protocoltypes.ContactRequestReference_Request{})
		if err != nil {
			return nil, err
		}
		rdvSeed = ref.PublicRendezvousSeed
''')
    edit(C, '''	pk, err := crypto.UnmarshalEd25519PublicKey(req.ContactPk)
	if err != nil {
		return nil, errcode.ErrCode_ErrDeserialization.Wrap(err)
	}

	accountGroup := s.getAccountGroup()
	if accountGroup == nil {
		return nil, errcode.ErrCode_ErrGroupMissing
	}

	if _, err := accountGroup.MetadataStore().ContactUnblock(ctx, pk); err != nil {''', '''	accountGroup := s.getAccountGroup()
	if accountGroup == nil {
		return nil, errcode.ErrCode_ErrGroupMissing
	}

	pk, err := crypto.UnmarshalEd25519PublicKey(req.ContactPk)
	if err != nil {
		return nil, errcode.ErrCode_ErrDeserialization.Wrap(err)
	}

	if _, err := accountGroup.MetadataStore().ContactUnblock(ctx, pk); err != nil {''')
else:
    sys.exit("unknown mutation " + name)
d = subprocess.run(["git", "-C", WT, "diff"], capture_output=True, text=True).stdout
assert d.strip(), "mutation did not apply"
open("/var/tmp/verif.builder-c07api/mut/%s.diff" % name, "w").write(d)
print(subprocess.run(["git", "-C", WT, "diff", "--stat"], capture_output=True, text=True).stdout.strip().splitlines()[-1])
