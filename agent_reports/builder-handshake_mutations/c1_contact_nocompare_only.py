import sys
p='/tmp/wt_builder-handshake/contact_request_manager.go'
s=open(p).read()
old='\t// validate contact pk\n\tif !bytes.Equal(otherPKBytes, contact.Pk) {\n\t\treturn fmt.Errorf("contact information does not match handshake data")\n\t}\n'
new=''
if s.count(old) < 1: sys.exit(1)
s=s.replace(old,new)
open(p,'w').write(s)
