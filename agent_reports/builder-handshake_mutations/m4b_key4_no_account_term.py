import sys
p='/tmp/wt_builder-handshake/internal/handshake/handshake.go'
s=open(p).read()
old='\tboxKey := cryptoutil.ConcatAndHashSha256(\n\t\thc.sharedEphemeral[:],\n\t\tsharedAccountID[:],\n\t)'
new='\tboxKey := cryptoutil.ConcatAndHashSha256(\n\t\thc.sharedEphemeral[:],\n\t)'
if s.count(old) < 1: sys.exit(1)
s=s.replace(old,new)
open(p,'w').write(s)
