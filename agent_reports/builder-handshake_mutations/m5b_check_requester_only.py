import sys
p='/tmp/wt_builder-handshake/internal/handshake/response.go'
s=open(p).read()
old='\tif err := hc.computeSharedEphemeral(); err != nil {\n\t\treturn errcode.ErrCode_ErrHandshakePeerEphemeralKeyRecv.Wrap(err)\n\t}'
new='\tbox.Precompute(hc.sharedEphemeral, hc.peerEphemeral, hc.ownEphemeral)'
if s.count(old) < 1: sys.exit(1)
s=s.replace(old,new)
open(p,'w').write(s)
