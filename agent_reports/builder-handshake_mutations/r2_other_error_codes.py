import sys
p='/tmp/wt_builder-handshake/internal/handshake/response.go'
s=open(p).read()
old='\t\treturn errcode.ErrCode_ErrCryptoDecrypt.Wrap(err)'
new='\t\treturn errcode.ErrCode_ErrInvalidInput.Wrap(err)'
if s.count(old) < 1: sys.exit(1)
s=s.replace(old,new)
open(p,'w').write(s)
p='/tmp/wt_builder-handshake/internal/handshake/request.go'
s=open(p).read()
old='\t\treturn errcode.ErrCode_ErrCryptoDecrypt.Wrap(err)'
new='\t\treturn errcode.ErrCode_ErrInvalidInput.Wrap(err)'
if s.count(old) < 1: sys.exit(1)
s=s.replace(old,new)
open(p,'w').write(s)
p='/tmp/wt_builder-handshake/internal/handshake/response.go'
s=open(p).read()
old='\tif !acknowledge.Success {\n\t\treturn errcode.ErrCode_ErrInvalidInput\n\t}'
new='\tif !acknowledge.Success {\n\t\treturn errcode.ErrCode_ErrHandshakeRequesterAcknowledge\n\t}'
if s.count(old) < 1: sys.exit(1)
s=s.replace(old,new)
open(p,'w').write(s)
