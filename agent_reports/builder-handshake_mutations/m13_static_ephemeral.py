import sys
p='/tmp/wt_builder-handshake/internal/handshake/handshake.go'
s=open(p).read()
old='\townEphemeralPub, ownEphemeralPriv, err := box.GenerateKey(crand.Reader)\n\tif err != nil {\n\t\treturn errcode.ErrCode_ErrCryptoKeyGeneration.Wrap(err)\n\t}\n'
new='\tstaticEphemeralOnce.Do(func() {\n\t\tstaticEphemeralPub, staticEphemeralPriv, staticEphemeralErr = box.GenerateKey(crand.Reader)\n\t})\n\townEphemeralPub, ownEphemeralPriv, err := staticEphemeralPub, staticEphemeralPriv, staticEphemeralErr\n\tif err != nil {\n\t\treturn errcode.ErrCode_ErrCryptoKeyGeneration.Wrap(err)\n\t}\n'
if s.count(old) < 1: sys.exit(1)
s=s.replace(old,new)
open(p,'w').write(s)
p='/tmp/wt_builder-handshake/internal/handshake/handshake.go'
s=open(p).read()
old='// Common struct and methods'
new='var (\n\tstaticEphemeralOnce                     sync.Once\n\tstaticEphemeralPub, staticEphemeralPriv *[cryptoutil.KeySize]byte\n\tstaticEphemeralErr                      error\n)\n\n// Common struct and methods'
if s.count(old) < 1: sys.exit(1)
s=s.replace(old,new)
open(p,'w').write(s)
p='/tmp/wt_builder-handshake/internal/handshake/handshake.go'
s=open(p).read()
old='\t"encoding/base64"\n'
new='\t"encoding/base64"\n\t"sync"\n'
if s.count(old) < 1: sys.exit(1)
s=s.replace(old,new)
open(p,'w').write(s)
