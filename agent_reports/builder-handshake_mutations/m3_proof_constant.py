import sys
p='/tmp/wt_builder-handshake/internal/handshake/request.go'
s=open(p).read()
old='hc.ownAccountID.Sign(hc.sharedEphemeral[:])'
new='hc.ownAccountID.Sign([]byte("weshnet-handshake-proof"))'
if s.count(old) < 1: sys.exit(1)
s=s.replace(old,new)
open(p,'w').write(s)
p='/tmp/wt_builder-handshake/internal/handshake/request.go'
s=open(p).read()
old='\tvalid, err := hc.peerAccountID.Verify(\n\t\thc.sharedEphemeral[:],'
new='\tvalid, err := hc.peerAccountID.Verify(\n\t\t[]byte("weshnet-handshake-proof"),'
if s.count(old) < 1: sys.exit(1)
s=s.replace(old,new)
open(p,'w').write(s)
p='/tmp/wt_builder-handshake/internal/handshake/response.go'
s=open(p).read()
old='hc.ownAccountID.Sign(hc.sharedEphemeral[:])'
new='hc.ownAccountID.Sign([]byte("weshnet-handshake-proof"))'
if s.count(old) < 1: sys.exit(1)
s=s.replace(old,new)
open(p,'w').write(s)
p='/tmp/wt_builder-handshake/internal/handshake/response.go'
s=open(p).read()
old='\tvalid, err := hc.peerAccountID.Verify(\n\t\thc.sharedEphemeral[:],'
new='\tvalid, err := hc.peerAccountID.Verify(\n\t\t[]byte("weshnet-handshake-proof"),'
if s.count(old) < 1: sys.exit(1)
s=s.replace(old,new)
open(p,'w').write(s)
