import sys
p='/tmp/wt_builder-handshake/internal/handshake/request.go'
s=open(p).read()
old='\tif err != nil {\n\t\treturn errcode.ErrCode_ErrCryptoSignatureVerification.Wrap(err)\n\t} else if !valid {\n\t\treturn errcode.ErrCode_ErrCryptoSignatureVerification\n\t}\n\n\treturn nil\n}\n\n// 5th step'
new='\t_, _ = valid, err\n\n\treturn nil\n}\n\n// 5th step'
if old not in s: sys.exit(1)
s=s.replace(old,new,1)
open(p,'w').write(s)
