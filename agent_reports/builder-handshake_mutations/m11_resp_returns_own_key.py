import sys
p='/tmp/wt_builder-handshake/internal/handshake/response.go'
s=open(p).read()
old='\treturn hc.peerAccountID, nil'
new='\treturn hc.ownAccountID.GetPublic(), nil'
if s.count(old) < 1: sys.exit(1)
s=s.replace(old,new)
open(p,'w').write(s)
