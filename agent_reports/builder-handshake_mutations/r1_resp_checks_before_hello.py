import sys
p='/tmp/wt_builder-handshake/internal/handshake/response.go'
s=open(p).read()
old='\tif err := hc.receivePeerEphemeralPubKey(); err != nil {\n\t\treturn errcode.ErrCode_ErrHandshakePeerEphemeralKeyRecv.Wrap(err)\n\t}\n\n\treturn nil\n}\n\n// 2nd step - Responder sends'
new='\tif err := hc.receivePeerEphemeralPubKey(); err != nil {\n\t\treturn errcode.ErrCode_ErrHandshakePeerEphemeralKeyRecv.Wrap(err)\n\t}\n\tvar probe [cryptoutil.KeySize]byte\n\tprobe[0], probe[31] = 8, 64\n\tif _, err := curve25519.X25519(probe[:], hc.peerEphemeral[:]); err != nil {\n\t\treturn errcode.ErrCode_ErrInvalidInput.Wrap(err)\n\t}\n\n\treturn nil\n}\n\n// 2nd step - Responder sends'
if s.count(old) < 1: sys.exit(1)
s=s.replace(old,new)
open(p,'w').write(s)
p='/tmp/wt_builder-handshake/internal/handshake/response.go'
s=open(p).read()
old='\t"golang.org/x/crypto/nacl/box"\n'
new='\t"golang.org/x/crypto/curve25519"\n\t"golang.org/x/crypto/nacl/box"\n'
if s.count(old) < 1: sys.exit(1)
s=s.replace(old,new)
open(p,'w').write(s)
