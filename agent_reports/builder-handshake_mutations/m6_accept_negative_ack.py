import sys
p='/tmp/wt_builder-handshake/internal/handshake/response.go'
s=open(p).read()
old='\tif !acknowledge.Success {\n\t\treturn errcode.ErrCode_ErrInvalidInput\n\t}\n'
new=''
if s.count(old) < 1: sys.exit(1)
s=s.replace(old,new)
open(p,'w').write(s)
