#!/usr/bin/env python3
"""Mutation trials of the group-lifecycle module (checks/grouplife.py) in the worktree /tmp/wt_builder_grouplife.
usage: run_mutations.py [name ...]   (no name: all).  Each trial: apply the edit, `VERIF_REPO=<wt> bin/check GLIFE`, read the evidence,
`git checkout` the files.  Results: results.json + <name>.diff in this directory."""
import json, os, subprocess, sys, time
WT = "/tmp/wt_builder_grouplife"
HERE = os.path.dirname(os.path.abspath(__file__))
EVD = "/var/tmp/builder-grouplife-evidence/mut"

SG, GC, SV = "service_group.go", "group_context.go", "service.go"
DEACT_OLD = """	s.lock.Lock()
	defer s.lock.Unlock()

	err = cg.Close()
	if err != nil {
		s.logger.Error("unable to close group context", zap.Error(err))
	}

	delete(s.openedGroups, string(id))

	if cg.group.GroupType == protocoltypes.GroupType_GroupTypeAccount {
		s.accountGroupCtx = nil
	}

	return nil
}
"""
M = {
    # --- behaviour changes
    "m01_entry_removed_and_lock_released_before_close": (SG, DEACT_OLD, """	s.lock.Lock()
	delete(s.openedGroups, string(id))
	if cg.group.GroupType == protocoltypes.GroupType_GroupTypeAccount {
		s.accountGroupCtx = nil
	}
	s.lock.Unlock()

	err = cg.Close()
	if err != nil {
		s.logger.Error("unable to close group context", zap.Error(err))
	}

	return nil
}
"""),
    "m02_activate_releases_lock_before_open": (SG, """	dbOpts := &iface.CreateDBOptions{LocalOnly: &localOnly}
	gc, err := s.odb.OpenGroup(ctx, g, dbOpts)""", """	s.lock.Unlock()
	dbOpts := &iface.CreateDBOptions{LocalOnly: &localOnly}
	gc, err := s.odb.OpenGroup(ctx, g, dbOpts)
	s.lock.Lock()"""),
    "m03_account_group_check_dropped": (SG, """		if s.accountGroupCtx == nil {
			return errcode.ErrCode_ErrGroupActivate.Wrap(fmt.Errorf("accountGroupCtx is deactivated"))
		}
""", ""),
    "m04_double_close": (SG, """	err = cg.Close()
	if err != nil {
		s.logger.Error("unable to close group context", zap.Error(err))
	}
""", """	err = cg.Close()
	if err != nil {
		s.logger.Error("unable to close group context", zap.Error(err))
	}
	_ = cg.Close()
"""),
    "m05_reactivation_forgets_to_subscribe": (SG, """	if err = gc.ActivateGroupContext(contactPK); err != nil {""", """	if _, reopened := s.odb.groups.Load(g.GroupIDAsString()); reopened && s.odb.IsGroupLoaded(g.GroupIDAsString()) && len(s.openedGroups) > 1 {
		err = nil
	} else if err = gc.ActivateGroupContext(contactPK); err != nil {"""),
    "m06_deactivate_of_unopened_group_is_an_error": (SG, """		// @FIXME(gfanton): should return an error code
		return nil""", """		return errcode.ErrCode_ErrGroupUnknown"""),
    "m07_deactivate_keeps_account_pointer": (SG, """	if cg.group.GroupType == protocoltypes.GroupType_GroupTypeAccount {
		s.accountGroupCtx = nil
	}

	return nil
}
""", """	return nil
}
"""),
    "m08_account_activation_not_registered": (SG, """		s.openedGroups[string(id)] = s.accountGroupCtx

""", """
"""),
    "m09_close_skips_deactivation": (SV, """	for _, pk := range pks {
		derr := s.deactivateGroup(pk)""", """	for _, pk := range pks[:len(pks)/2] {
		derr := s.deactivateGroup(pk)"""),
    "m10_compare_and_delete_(the_repair_of_D2)": (SG, """	delete(s.openedGroups, string(id))

	if cg.group.GroupType == protocoltypes.GroupType_GroupTypeAccount {
		s.accountGroupCtx = nil
	}
""", """	if s.openedGroups[string(id)] == cg {
		delete(s.openedGroups, string(id))

		if cg.group.GroupType == protocoltypes.GroupType_GroupTypeAccount {
			s.accountGroupCtx = nil
		}
	}
"""),
    "m11_context_close_does_not_wait_for_handlers": (GC, """	gc.tasks.Wait()

""", """
"""),
    "m12_lookup_returns_closed_contexts_as_unknown_only_after_delete": (SG, """	cg, ok := s.openedGroups[string(id)]

	if ok {
		return cg, nil
	}
""", """	cg, ok := s.openedGroups[string(id)]

	if ok && !cg.IsClosed() {
		return cg, nil
	}
	if ok {
		return nil, errcode.ErrCode_ErrGroupOpen
	}
"""),
    # --- behaviour-preserving refactorings (must stay silent)
    "r01_delete_before_close_inside_the_lock": (SG, DEACT_OLD, """	s.lock.Lock()
	defer s.lock.Unlock()

	delete(s.openedGroups, string(id))

	if cg.group.GroupType == protocoltypes.GroupType_GroupTypeAccount {
		s.accountGroupCtx = nil
	}

	if err = cg.Close(); err != nil {
		s.logger.Error("unable to close group context", zap.Error(err))
	}

	return nil
}
"""),
    "r02_lookup_helper_and_if_chain": (SG, """	s.lock.RLock()
	defer s.lock.RUnlock()

	cg, ok := s.openedGroups[string(id)]

	if ok {
		return cg, nil
	}

	return nil, errcode.ErrCode_ErrGroupUnknown
}
""", """	if cg := s.lookupOpened(string(id)); cg != nil {
		return cg, nil
	}

	return nil, errcode.ErrCode_ErrGroupUnknown
}

func (s *service) lookupOpened(key string) *GroupContext {
	s.lock.RLock()
	cg := s.openedGroups[key]
	s.lock.RUnlock()
	return cg
}
"""),
}


def sh(*a, **kw):
    return subprocess.run(a, stdout=subprocess.PIPE, stderr=subprocess.STDOUT, text=True, **kw)


def main():
    names = sys.argv[1:] or sorted(M)
    resp = os.path.join(HERE, "results.json")
    results = json.load(open(resp)) if os.path.exists(resp) else {}
    for n in names:
        f, old, new = M[n]
        sh("git", "-C", WT, "checkout", "--", ".")
        p = os.path.join(WT, f)
        src = open(p).read()
        if src.count(old) != 1:
            print(n, "PATTERN NOT FOUND / NOT UNIQUE", src.count(old))
            continue
        open(p, "w").write(src.replace(old, new))
        open(os.path.join(HERE, n + ".diff"), "w").write(sh("git", "-C", WT, "diff").stdout)
        os.makedirs(EVD, exist_ok=True)
        t0 = time.time()
        env = dict(os.environ, VERIF_REPO=WT, VERIF_EVIDENCE_DIR=EVD, VERIF_SEED="0", VERIF_SCRATCH="/var/tmp/verif.grouplife/runs")
        r = sh("/verif/bin/check", "GLIFE", env=env, timeout=2400)
        rec = {"exit": r.returncode, "wall_s": round(time.time() - t0, 1)}
        tail = [l for l in r.stdout.splitlines() if l.startswith(("VIOLATION", "INFRA-ERROR")) or "driver does not build" in l]
        rec["lines"] = tail[:4]
        if r.returncode == 2:
            rec["infra"] = r.stdout[-1500:]
        try:
            ev = json.load(open(os.path.join(EVD, "GLIFE.json")))
            gl = ev["coverage"]["group_lifecycle"]
            rec.update({"violations": ev["violations"], "drift_records": len(ev["coverage"]["model_drift"]),
                        "traces_rejected_full_spec": gl.get("traces_rejected_full_spec"), "traces_accepted_full_spec": gl.get("traces_accepted_full_spec"),
                        "panics": gl.get("panics"), "gates_placed": gl.get("gates_placed"),
                        "unexplained": sorted(c for c, o in gl.get("observations", {}).items() if o.get("explained_by") is None),
                        "first_drift": json.dumps(ev["coverage"]["model_drift"][:1])[:700]})
            os.remove(os.path.join(EVD, "GLIFE.json"))
        except Exception as e:      # noqa
            rec["evidence"] = "none (%s)" % e
        results[n] = rec
        json.dump(results, open(resp, "w"), indent=1)
        print(n, json.dumps(rec)[:900], flush=True)
    sh("git", "-C", WT, "checkout", "--", ".")


main()
