import subprocess, json, os, sys, shutil, time
WT = "/tmp/wt_builder_crm"
MUTS = {
 "M1_disable_keeps_announce": ("contact_request_manager.go", "\tc.enabled = false\n\n\tc.disableAnnounce()\n\n\tc.ipfs.RemoveStreamHandler(contactRequestV1)\n\n\treturn nil\n}", "\tc.enabled = false\n\n\tc.ipfs.RemoveStreamHandler(contactRequestV1)\n\n\treturn nil\n}"),
 "M2_reset_keeps_old_announce": ("contact_request_manager.go", "\t\ttyber.LogStep(ctx, c.logger, \"canceling previous announce\")\n\t\tc.announceCancel()\n", "\t\ttyber.LogStep(ctx, c.logger, \"canceling previous announce\")\n"),
 "M3_sent_keeps_lookup": ("contact_request_manager.go", "\t// another device may have successfully sent contact request, try to cancel\n\t// lookup if needed\n\tc.cancelContactLookup(e.ContactPk)\n\treturn nil\n}\n\nfunc (c *contactRequestsManager) metadataRequestReceived", "\treturn nil\n}\n\nfunc (c *contactRequestsManager) metadataRequestReceived"),
 "M4_no_added_check": ("contact_request_manager.go", "\tif ok := c.metadataStore.checkContactStatus(otherPK, protocoltypes.ContactState_ContactStateAdded); ok {", "\tif ok := false && c.metadataStore.checkContactStatus(otherPK, protocoltypes.ContactState_ContactStateAdded); ok {"),
 "M5_close_keeps_handler": ("contact_request_manager.go", "\tc.enabled = false\n\n\tc.disableAnnounce()\n\n\tc.ipfs.RemoveStreamHandler(contactRequestV1)\n}", "\tc.enabled = false\n\n\tc.disableAnnounce()\n}"),
 "M6_startup_skips_torequest": ("contact_request_manager.go", "ListContactsByStatus(protocoltypes.ContactState_ContactStateToRequest) {", "ListContactsByStatus(protocoltypes.ContactState_ContactStateReceived) {"),
 "M7_reset_same_seed_reannounce": ("contact_request_manager.go", "\tcase bytes.Equal(e.PublicRendezvousSeed, c.ownRendezvousSeed):\n\t\treturn fmt.Errorf(\"unable to reset twice with the same seed\")\n", ""),
 "M8_send_does_not_mark_sent": ("contact_request_manager.go", "\tif _, err := c.metadataStore.ContactRequestOutgoingSent(ctx, otherPK); err != nil {\n\t\treturn fmt.Errorf(\"an error occurred while marking contact request as sent: %w\", err)\n\t}\n", ""),
 "M9_enable_without_seed_announces_nothing_but_reset_ignored_when_disabled_flag": ("contact_request_manager.go", "\tif !c.enabled {\n\t\treturn nil\n\t}\n\n\treturn c.enableAnnounce(ctx, c.ownRendezvousSeed, accPK)", "\treturn c.enableAnnounce(ctx, c.ownRendezvousSeed, accPK)"),
 "M10_received_keeps_lookup": ("contact_request_manager.go", "\t// another device may have successfully sent contact request, try to cancel\n\t// lookup if needed\n\tc.cancelContactLookup(e.ContactPk)\n\treturn nil\n}\n\nfunc (c *contactRequestsManager) registerContactLookup", "\treturn nil\n}\n\nfunc (c *contactRequestsManager) registerContactLookup"),
 "M11_incoming_skips_pk_match": ("contact_request_manager.go", "\tif !bytes.Equal(otherPKBytes, contact.Pk) {", "\tif false && !bytes.Equal(otherPKBytes, contact.Pk) {"),
 "M12_startup_reads_seed_after_enable": ("contact_request_manager.go", "\tif contact != nil {\n\t\tc.ownRendezvousSeed = contact.PublicRendezvousSeed\n\t}\n\n\tc.muManager.Lock()\n\tif enabled {\n\t\tif err := c.enableContactRequest(ctx); err != nil {\n\t\t\tc.logger.Warn(\"unable to enable contact request\", zap.Error(err))\n\t\t}\n\t}\n\tc.muManager.Unlock()\n", "\tc.muManager.Lock()\n\tif enabled {\n\t\tif err := c.enableContactRequest(ctx); err != nil {\n\t\t\tc.logger.Warn(\"unable to enable contact request\", zap.Error(err))\n\t\t}\n\t}\n\tif contact != nil {\n\t\tc.ownRendezvousSeed = contact.PublicRendezvousSeed\n\t}\n\tc.muManager.Unlock()\n"),
 "K1_store_accepts_blocked_incoming": ("store_metadata.go", "\tcase protocoltypes.ContactState_ContactStateBlocked:\n\t\treturn nil, errcode.ErrCode_ErrContactRequestContactBlocked\n\tdefault:\n\t\treturn nil, errcode.ErrCode_ErrInvalidInput\n\t}\n\n\treturn m.attributeSignAndAddEvent(ctx, &protocoltypes.AccountContactRequestIncomingReceived{", "\tcase protocoltypes.ContactState_ContactStateBlocked:\n\tdefault:\n\t\treturn nil, errcode.ErrCode_ErrInvalidInput\n\t}\n\n\treturn m.attributeSignAndAddEvent(ctx, &protocoltypes.AccountContactRequestIncomingReceived{"),
 "K3_store_accepts_self_enqueue": ("store_metadata.go", "\taccountPublicKey := m.memberDevice.Member()\n\tif contact.IsSamePK(accountPublicKey) {\n\t\treturn nil, errcode.ErrCode_ErrContactRequestSameAccount\n\t}\n\n\tpk, err := contact.GetPubKey()\n\tif err != nil {\n\t\treturn nil, errcode.ErrCode_ErrDeserialization.Wrap(err)\n\t}\n\n\tif m.checkContactStatus(pk, protocoltypes.ContactState_ContactStateAdded) {", "\tpk, err := contact.GetPubKey()\n\tif err != nil {\n\t\treturn nil, errcode.ErrCode_ErrDeserialization.Wrap(err)\n\t}\n\n\tif m.checkContactStatus(pk, protocoltypes.ContactState_ContactStateAdded) {"),
 # behaviour-preserving refactorings: must stay silent
 "R1_refactor_cancel_defer": ("contact_request_manager.go", "func (c *contactRequestsManager) cancelContactLookup(contactPK []byte) {\n\tc.muLookupProcess.Lock()\n\n\tkey := hex.EncodeToString(contactPK)\n\n\t// cancel current lookup if needed\n\tif cancel, ok := c.lookupProcess[key]; ok {\n\t\tcancel()\n\t\tdelete(c.lookupProcess, key)\n\t}\n\n\tc.muLookupProcess.Unlock()\n}", "func (c *contactRequestsManager) cancelContactLookup(contactPK []byte) {\n\tkey := hex.EncodeToString(contactPK)\n\tc.muLookupProcess.Lock()\n\tdefer c.muLookupProcess.Unlock()\n\tcancel, ok := c.lookupProcess[key]\n\tif !ok {\n\t\treturn\n\t}\n\tdelete(c.lookupProcess, key)\n\tcancel()\n}"),
 "R2_refactor_shorter_pause": ("tinder_swiper.go", "\t\t\t// peer in short amount of time\n\t\t\ttime.Sleep(time.Second)", "\t\t\t// peer in short amount of time\n\t\t\ttime.Sleep(300 * time.Millisecond)"),
}
which = sys.argv[1:] or list(MUTS)
out = {}
for name in which:
    f, old, new = MUTS[name]
    p = os.path.join(WT, f)
    subprocess.run(["git", "-C", WT, "checkout", "--", "."], check=True)
    src = open(p).read()
    if src.count(old) != 1:
        print(name, "PATTERN NOT FOUND / AMBIGUOUS", src.count(old)); continue
    open(p, "w").write(src.replace(old, new))
    t0 = time.time()
    env = dict(os.environ, VERIF_REPO=WT, VERIF_EVIDENCE_DIR="/var/tmp/builder-crm-evidence/mut", VERIF_SEED="0")
    r = subprocess.run(["/verif/bin/check", "CRM", "--tier", "thorough", "--replay", "/var/tmp/verif.crm-dev/scripts_mut.json"], env=env, stdout=subprocess.PIPE, stderr=subprocess.STDOUT, text=True)
    res = {"rc": r.returncode, "wall": round(time.time() - t0)}
    try:
        e = json.load(open("/var/tmp/builder-crm-evidence/mut/CRM.json"))
        cm = e["coverage"]["contact_manager"]
        res.update(replayed=cm.get("scripts_replayed"), accepted=cm.get("traces_accepted_full_spec"), rejected=cm.get("traces_rejected_full_spec"),
                   skipped=cm.get("scripts_skipped_infrastructure"),
                   obs={c: (o["scripts"], o["explained_by"]) for c, o in cm.get("observations", {}).items()},
                   k=[(x["clause"], x["reproduced"]) for x in cm.get("c07_clause_rejects", [])],
                   first=cm.get("first_rejected", {}).get("script"), first_step=cm.get("first_rejected", {}).get("step"),
                   violations=e["violations"])
        os.remove("/var/tmp/builder-crm-evidence/mut/CRM.json")
    except Exception as ex:
        res["tail"] = r.stdout.splitlines()[-6:]
    out[name] = res
    print(name, json.dumps(res), flush=True)
    subprocess.run(["git", "-C", WT, "checkout", "--", "."], check=True)
json.dump(out, open("/var/tmp/verif.crm-dev/mut/results_%d.json" % int(time.time()), "w"), indent=1)
