#!/bin/bash
# usage: tools_mut.sh <prop> <file> <sed-expr> [tier]; applies a mutation in a scratch worktree of /repo, runs the check there, removes it
prop=$1; file=$2; expr=$3; tier=${4:-quick}
wt=/tmp/wt_mut_$$
git -C /repo worktree add -q --detach $wt HEAD || exit 3
cd $wt && sed -i "$expr" "$file"
if git -C $wt diff --quiet; then echo "MUTATION DID NOT APPLY"; git -C /repo worktree remove --force $wt; exit 3; fi
git -C $wt diff --stat | tail -1
cd /verif && VERIF_REPO=$wt timeout 3000 bin/check $prop --tier $tier 2>&1 | grep -E "VIOLATION|KNOWN|INFRA|drift|Error" | cut -c1-300 | head -4
echo "exit=${PIPESTATUS[0]}"
git -C /repo worktree remove --force $wt
