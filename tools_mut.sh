#!/bin/bash
# usage: tools_mut.sh <prop> <file> <sed-expr> ; applies a mutation to /repo, runs the quick check, reverts
prop=$1; file=$2; expr=$3
cd /repo && sed -i "$expr" "$file" && git diff --stat | tail -1
if git diff --quiet; then echo "MUTATION DID NOT APPLY"; exit 3; fi
cd /verif && timeout 1500 bin/check $prop --tier quick 2>&1 | grep -E "VIOLATION|KNOWN|INFRA|drift|Error" | cut -c1-400 | head -8
echo "exit=${PIPESTATUS[0]}"
cd /repo && git checkout -- . 
