"""Shared machinery for the weshnet TLA+ model-based checks.

Everything here is python3 stdlib only.  One `Ctx` per check invocation:
it owns a scratch directory outside /repo and /verif, runs TLC, builds the go
overlay that injects /verif/harness drivers into /repo packages, runs the
drivers, validates recorded traces with TLC and writes the evidence file.
"""
import json, os, re, shutil, subprocess, sys, tempfile, time, hashlib, random

ROOT = os.path.dirname(os.path.dirname(os.path.abspath(__file__)))
REPO = os.environ.get("VERIF_REPO", "/repo")
SPECS = os.path.join(ROOT, "specs")
HARNESS = os.path.join(ROOT, "harness")
NCPU = os.cpu_count() or 4

EXIT_OK, EXIT_VIOLATION, EXIT_INFRA = 0, 1, 2


class Infra(Exception):
    """infrastructure failure: never a verdict about the property"""


def log(*a):
    print("[verif]", *a, file=sys.stderr, flush=True)


def _unescape_tla_string(s):
    out, i = [], 0
    while i < len(s):
        c = s[i]
        if c == "\\" and i + 1 < len(s):
            n = s[i + 1]
            out.append({"n": "\n", "t": "\t", "r": "\r", "f": "\f"}.get(n, n))
            i += 2
        else:
            out.append(c)
            i += 1
    return "".join(out)


_PRINT_RE = re.compile(r'^<<"([A-Z_]+)", "(.*)">>$')


class TLCResult:
    def __init__(self):
        self.rc = None
        self.out = ""
        self.generated = 0
        self.distinct = 0
        self.depth = 0
        self.violated = None      # name of violated invariant/property or None
        self.error = None         # other error text
        self.printed = {}         # tag -> list of decoded JSON values
        self.wall = 0.0
        self.cmd = ""
        self.coverage_zero = []

    @property
    def ok(self):
        return self.rc == 0 and self.violated is None and self.error is None


class Ctx:
    def __init__(self, prop, tier="quick", seed=0):
        self.prop = prop
        self.tier = tier
        self.seed = int(seed)
        base = os.environ.get("VERIF_SCRATCH")
        if base:
            os.makedirs(base, exist_ok=True)
            self.scratch = tempfile.mkdtemp(prefix="%s." % prop, dir=base)
        else:
            self.scratch = tempfile.mkdtemp(prefix="verif.%s." % prop, dir="/var/tmp")
        self.t0 = time.time()
        self.states = 0
        self.transitions = 0
        self.traces_validated = 0
        self.evaluations = 0
        self.distinct_nontrivial = 0
        self.samples = []
        self.violations = []       # list of dict(what, replay)
        self.known = []
        self.drift = []
        self.tlc_runs = []
        self.extra = {}
        self.assumptions = []
        self.rng = random.Random(self.seed)

    # ---------------------------------------------------------------- scratch
    def sub(self, name):
        d = os.path.join(self.scratch, name)
        os.makedirs(d, exist_ok=True)
        return d

    def cleanup(self):
        if os.environ.get("VERIF_KEEP"):
            log("scratch kept:", self.scratch)
            return
        shutil.rmtree(self.scratch, ignore_errors=True)

    # -------------------------------------------------------------------- TLC
    def tlc(self, module, cfg, name=None, workers=None, simulate=None, depth=None,
            env=None, timeout=600, deque=False, extra=None, coverage=False,
            consts=None, count=True, allow_violation=False, heap=None, defs=None):
        """Run TLC on specs/<module>.tla with specs/<cfg> in a private copy.

        consts: dict of CONSTANT overrides appended to the cfg (name -> TLA text).
        Returns TLCResult.  Raises Infra on crash/timeout.
        """
        name = name or (module + "_" + os.path.splitext(os.path.basename(cfg))[0])
        d = self.sub("tlc_" + name)
        for f in os.listdir(SPECS):
            if f.endswith(".tla"):
                shutil.copy(os.path.join(SPECS, f), d)
        cfgtxt = open(os.path.join(SPECS, cfg)).read()
        if consts:
            cfgtxt += "\nCONSTANTS\n" + "\n".join("  %s = %s" % kv for kv in consts.items()) + "\n"
        if defs:
            # constants that need TLA+ expressions (functions, sequences): wrapper module + substitution
            wrap = "VfRun_" + module
            body = "---- MODULE %s ----\nEXTENDS %s\n" % (wrap, module)
            body += "".join("vf_%s == %s\n" % kv for kv in defs.items()) + "====\n"
            with open(os.path.join(d, wrap + ".tla"), "w") as f:
                f.write(body)
            cfgtxt += "\nCONSTANTS\n" + "\n".join("  %s <- vf_%s" % (k, k) for k in defs) + "\n"
            module = wrap
        with open(os.path.join(d, "run.cfg"), "w") as f:
            f.write(cfgtxt)
        workers = workers or min(NCPU, 8)
        cmd = ["java", "-XX:+UseParallelGC"]
        if heap:
            cmd.append("-Xmx" + heap)
        cmd.append("-Xss64m")
        if deque:
            cmd.append("-Dtlc2.tool.queue.IStateQueue=StateDeque")
        cmd += ["-cp", "/opt/veriftools/tla/tla2tools.jar:/opt/veriftools/tla/CommunityModules-deps.jar",
                "tlc2.TLC", "-metadir", os.path.join(d, "md"), "-workers", str(workers),
                "-config", "run.cfg", "-noGenerateSpecTE"]
        if simulate:
            cmd += ["-simulate", simulate]
            if depth:
                cmd += ["-depth", str(depth)]
            cmd += ["-seed", str(self.seed + 1)]
        if coverage:
            cmd += ["-coverage", "1"]
        if extra:
            cmd += extra
        cmd.append(module + ".tla")
        e = dict(os.environ)
        e.pop("JAVA_TOOL_OPTIONS", None)
        if env:
            e.update({k: str(v) for k, v in env.items()})
        r = TLCResult()
        r.cmd = " ".join(cmd)
        t0 = time.time()
        try:
            p = subprocess.run(cmd, cwd=d, env=e, stdout=subprocess.PIPE, stderr=subprocess.STDOUT,
                               timeout=timeout, text=True, errors="replace")
        except subprocess.TimeoutExpired:
            subprocess.run(["pkill", "-f", d], check=False)
            raise Infra("TLC timeout after %ss: %s" % (timeout, name))
        r.wall = time.time() - t0
        r.rc = p.returncode
        r.out = p.stdout
        with open(os.path.join(d, "tlc.out"), "w") as f:
            f.write(p.stdout)
        for line in p.stdout.splitlines():
            m = _PRINT_RE.match(line)
            if m:
                try:
                    r.printed.setdefault(m.group(1), []).append(json.loads(_unescape_tla_string(m.group(2))))
                except Exception as ex:
                    raise Infra("cannot decode TLC print line: %s (%s)" % (line[:200], ex))
                continue
            m = re.match(r"^(\d+) states generated, (\d+) distinct states found", line)
            if m:
                r.generated, r.distinct = int(m.group(1)), int(m.group(2))
            m = re.match(r"^The depth of the complete state graph search is (\d+)", line)
            if m:
                r.depth = int(m.group(1))
            m = re.match(r"^Error: Invariant (\S+) is violated", line)
            if m:
                r.violated = m.group(1)
            m = re.match(r"^Error: Action property (\S+) is violated", line)
            if m:
                r.violated = m.group(1)
            if line.startswith("Error: Temporal properties were violated"):
                r.violated = "temporal"
            if re.match(r"^Error: Deadlock reached", line):
                r.violated = "Deadlock"
            if line.startswith("Error:") and r.violated is None and r.error is None:
                r.error = line
            m = re.match(r"^Progress\(\d+\) at .*: (\d+) states generated.*, (\d+) distinct states found", line)
            if m and simulate:
                r.generated, r.distinct = int(m.group(1).replace(",", "")), int(m.group(2).replace(",", ""))
            if coverage:
                m = re.match(r"^\s*<(\w+) line .*>: (\d+):(\d+)$", line)
                if m and m.group(2) == "0" and m.group(3) == "0":
                    r.coverage_zero.append(m.group(1))
        if r.error and "Postcondition" in r.error or (r.error and "POSTCONDITION" in r.error):
            r.violated = "Postcondition"
            r.error = None
        if r.error and r.violated is None and not allow_violation:
            raise Infra("TLC error in %s: %s\n%s" % (name, r.error, "\n".join(p.stdout.splitlines()[-25:])))
        if r.rc not in (0, 12, 13) and r.violated is None:
            raise Infra("TLC exit %s in %s\n%s" % (r.rc, name, "\n".join(p.stdout.splitlines()[-25:])))
        if count:
            self.states += r.distinct
            self.transitions += r.generated
        self.tlc_runs.append({"name": name, "generated": r.generated, "distinct": r.distinct,
                              "depth": r.depth, "wall_s": round(r.wall, 2), "violated": r.violated,
                              "mode": "simulate" if simulate else "check"})
        return r

    def tlc_expect_ok(self, *a, **kw):
        r = self.tlc(*a, **kw)
        if not r.ok:
            raise Infra("TLC model check failed unexpectedly (%s): violated=%s\n%s" % (
                kw.get("name") or a[0], r.violated, "\n".join(r.out.splitlines()[-40:])))
        return r

    # ---------------------------------------------------------------- overlay
    def overlay(self, pkgs, replace=None, common=True):
        """pkgs: {relpkg: [harness file names under harness/<relpkg>/]}.
        Returns path of overlay.json.  Files land in /repo/<relpkg>/ virtually.
        `replace`: {repo-relative path: absolute replacement path}."""
        rep = {}
        od = self.sub("overlay")
        for rel, files in pkgs.items():
            pkgname = None
            for fn in files:
                src = os.path.join(HARNESS, "root" if rel == "." else rel, fn)
                if not os.path.exists(src):
                    raise Infra("missing harness file " + src)
                rep[os.path.normpath(os.path.join(REPO, rel, fn))] = src
                if pkgname is None:
                    m = re.search(r"^package (\w+)", open(src).read(), re.M)
                    pkgname = m.group(1)
            if rel == "." and pkgname == "weshnet" and "vf_compat_verif_test.go" not in files:
                # adaptive wrappers around two unexported helpers the in-package drivers call (see the file's header)
                rep[os.path.normpath(os.path.join(REPO, rel, "vf_compat_verif_test.go"))] = os.path.join(HARNESS, "root", "vf_compat_verif_test.go")
            if common:
                tmpl = open(os.path.join(HARNESS, "_common", "vfio_test.go.tmpl")).read()
                dst = os.path.join(od, rel.replace("/", "_").replace(".", "root") + "_vfio_verif_test.go")
                with open(dst, "w") as f:
                    f.write(tmpl.replace("__PKG__", pkgname))
                rep[os.path.normpath(os.path.join(REPO, rel, "zz_vfio_verif_test.go"))] = dst
        for k, v in (replace or {}).items():
            rep[os.path.normpath(os.path.join(REPO, k))] = v
        p = os.path.join(od, "overlay.json")
        with open(p, "w") as f:
            json.dump({"Replace": rep}, f, indent=1)
        return p

    def go_env(self, extra=None):
        e = dict(os.environ)
        e["GOFLAGS"] = "-mod=readonly"   # never let a driver import rewrite /repo/go.mod
        e["GOPROXY"] = "off"
        e.pop("GOTOOLCHAIN", None)
        e.pop("GOSUMDB", None)
        e["VERIF_SEED"] = str(self.seed)
        e["VERIF_TIER"] = self.tier
        if extra:
            e.update({k: str(v) for k, v in extra.items()})
        return e

    def go_test(self, relpkg, run, overlay, env=None, timeout=900, parallel=None, args=None, name=None):
        """Build and run an injected driver (a TestVerif* function)."""
        cmd = ["go", "test", "-v", "-tags", "verif", "-vet=off", "-count=1", "-overlay", overlay,
               "-run", run, "-timeout", "%ds" % timeout]
        if parallel:
            cmd += ["-parallel", str(parallel)]
        cmd += ["./" + relpkg if relpkg != "." else "."]
        if args:
            cmd += ["-args"] + args
        t0 = time.time()
        try:
            p = subprocess.run(cmd, cwd=REPO, env=self.go_env(env), stdout=subprocess.PIPE,
                               stderr=subprocess.STDOUT, text=True, errors="replace", timeout=timeout + 120)
        except subprocess.TimeoutExpired:
            raise Infra("go test timeout: %s %s" % (relpkg, run))
        with open(os.path.join(self.scratch, (name or run.strip("^$")) + ".gotest.out"), "w") as f:
            f.write(p.stdout)
        log("go test %s -run %s: rc=%s in %.1fs" % (relpkg, run, p.returncode, time.time() - t0))
        if "[build failed]" in p.stdout or "[setup failed]" in p.stdout or re.search(r"^# ", p.stdout, re.M) and p.returncode != 0 and "--- FAIL" not in p.stdout and "panic:" not in p.stdout:
            raise Infra("driver does not build against the current tree:\n" + "\n".join(p.stdout.splitlines()[:40]))
        if "no tests to run" in p.stdout:
            raise Infra("driver %s not found in %s" % (run, relpkg))
        return p.returncode, p.stdout

    def instrument(self, relfiles, funcs=None):
        """instrumented copies (tools/instrument) of repo files for the cooperative scheduler.
        Returns (replace-map for overlay(), skeleton dict).  The verifsched runtime package is
        added to the module through the same overlay."""
        tool = os.path.join(self.sub("bin"), "instrument")
        if not os.path.exists(tool):
            p = subprocess.run(["go", "build", "-o", tool, "."], cwd=os.path.join(ROOT, "tools", "instrument"),
                               env=dict(self.go_env(), GOFLAGS="-mod=mod", GOWORK="off"),
                               stdout=subprocess.PIPE, stderr=subprocess.STDOUT, text=True, timeout=300)
            if p.returncode != 0:
                raise Infra("cannot build instrumenter: " + p.stdout[-2000:])
        out = self.sub("inst")
        rep = {}
        skel = {}
        # one output dir per source dir (base names may repeat)
        for i, rel in enumerate(relfiles):
            od = os.path.join(out, str(i))
            os.makedirs(od, exist_ok=True)
            sk = os.path.join(od, "skel.json")
            cmd = [tool, "-out", od, "-skeleton", sk]
            if funcs and funcs.get(rel):
                cmd += ["-funcs", ",".join(funcs[rel])]
            cmd.append(os.path.join(REPO, rel))
            p = subprocess.run(cmd, stdout=subprocess.PIPE, stderr=subprocess.STDOUT, text=True, timeout=120)
            if p.returncode != 0:
                raise Infra("instrumenter failed on %s: %s" % (rel, p.stdout[-2000:]))
            rep[rel] = os.path.join(od, os.path.basename(rel))
            skel.update(json.load(open(sk)))
        rep["internal/verifsched/sched.go"] = os.path.join(HARNESS, "internal", "verifsched", "sched.go")
        return rep, skel

    def go_test_compile(self, relpkg, overlay, name="drv", timeout=1500):
        """compile the test binary of relpkg (with injected drivers) once"""
        out = os.path.join(self.sub("bin"), name + ".test")
        cmd = ["go", "test", "-tags", "verif", "-vet=off", "-overlay", overlay, "-c", "-o", out,
               "./" + relpkg if relpkg != "." else "."]
        t0 = time.time()
        try:
            p = subprocess.run(cmd, cwd=REPO, env=self.go_env(), stdout=subprocess.PIPE, stderr=subprocess.STDOUT,
                               text=True, errors="replace", timeout=timeout)
        except subprocess.TimeoutExpired:
            raise Infra("go test -c timeout: " + relpkg)
        log("go test -c %s: rc=%s in %.1fs" % (relpkg, p.returncode, time.time() - t0))
        if p.returncode != 0 or not os.path.exists(out):
            raise Infra("driver does not build against the current tree:\n" + "\n".join(p.stdout.splitlines()[:40]))
        return out

    def run_sharded(self, binary, run, relpkg, scripts, name, shards=None, env=None, timeout=900, chunk=600):
        """run a compiled driver over the scripts, sharded over processes (one controller per process);
        returns all recorded events (blocks stay contiguous)"""
        shards = max(1, min(shards or NCPU, len(scripts)))
        d = self.sub("drv_" + name)
        # chunks of at most `chunk` scripts per process (leaked goroutines of broken code must not pile up)
        nchunks = max(shards, (len(scripts) + chunk - 1) // chunk)
        chunks = [scripts[i::nchunks] for i in range(nchunks)]
        events = []
        t0 = time.time()
        pending = list(enumerate(chunks))
        running = []

        def start(i, part):
            sp, tp = os.path.join(d, "scripts%d.ndjson" % i), os.path.join(d, "trace%d.ndjson" % i)
            write_ndjson(sp, part)
            e = self.go_env(dict(env or {}, VERIF_SCRIPTS=sp, VERIF_TRACE_OUT=tp))
            lf = open(os.path.join(d, "out%d.txt" % i), "w")
            cwd = os.path.normpath(os.path.join(REPO, relpkg))
            if not os.path.isdir(cwd):      # package that only exists in the overlay
                cwd = d
            p = subprocess.Popen([binary, "-test.run", run, "-test.count=1", "-test.timeout", "%ds" % timeout, "-test.v"],
                                 cwd=cwd, env=e, stdout=lf, stderr=subprocess.STDOUT)
            return (p, lf, tp, i, time.time())

        def finish(p, lf, tp, i, ts):
            lf.close()
            out = open(lf.name).read()
            if "VERIF-INFRA" in out:
                raise Infra("driver infrastructure error:\n" + "\n".join([l for l in out.splitlines() if "VERIF-INFRA" in l][:5]))
            if "VERIF-DONE" not in out:
                raise Infra("driver chunk %d failed without finishing (rc=%s):\n%s" % (i, p.returncode, "\n".join(out.splitlines()[-30:])))
            events.extend(read_ndjson(tp))

        while pending or running:
            while pending and len(running) < shards:
                i, part = pending.pop(0)
                running.append(start(i, part))
            still = []
            for r in running:
                if r[0].poll() is None:
                    if time.time() - r[4] > timeout + 60:
                        r[0].kill()
                        raise Infra("driver chunk %d timed out" % r[3])
                    still.append(r)
                else:
                    finish(*r)
            running = still
            if running:
                time.sleep(0.05)
        log("driver %s: %d scripts on %d shards in %.1fs" % (name, len(scripts), shards, time.time() - t0))
        return events

    # ------------------------------------------------------ trace validation
    def validate_trace(self, module, cfg, trace_file, name=None, timeout=600, consts=None, strict=False, defs=None):
        """Run Trace<module> over an ndjson trace.  Returns (accepted, info).
        info = dict(high=<lines consumed>, line=<first rejected record or None>)."""
        n = sum(1 for _ in open(trace_file))
        if n == 0:
            raise Infra("empty trace " + trace_file)
        r = self.tlc(module, cfg, name=name or ("trace_" + module), workers=1,
                     env={"VERIF_TRACE": trace_file, "VERIF_STRICT": "1" if strict else "0"},
                     timeout=timeout, consts=consts, allow_violation=True, count=False, defs=defs)
        rej = r.printed.get("REJECTED")
        if r.violated is None and r.error is None and r.rc == 0 and not rej:
            return True, {"lines": n, "high": n, "states": r.distinct}
        if rej:
            info = rej[0]
            info["lines"] = n
            return False, info
        if r.violated and r.violated != "Postcondition":
            # an INVARIANT of the trace spec failed on an observed state
            return False, {"lines": n, "invariant": r.violated, "tail": r.out.splitlines()[-60:]}
        raise Infra("trace validation broke (%s): %s\n%s" % (module, r.error or r.violated, "\n".join(r.out.splitlines()[-30:])))

    # --------------------------------------------------------------- verdicts
    def violation(self, what, replay_obj):
        os.makedirs(os.path.join(ROOT, "replays"), exist_ok=True)
        h = hashlib.sha1(json.dumps(replay_obj, sort_keys=True, default=str).encode()).hexdigest()[:12]
        path = os.path.join(ROOT, "replays", "%s_%s.json" % (self.prop, h))
        replay_obj = dict(replay_obj)
        replay_obj.update({"property": self.prop, "seed": self.seed, "tier": self.tier, "what": what})
        with open(path, "w") as f:
            json.dump(replay_obj, f, indent=1, default=str)
        self.violations.append({"what": what, "replay": path})
        return path

    def known_findings(self):
        p = os.path.join(ROOT, "known_findings.json")
        if not os.path.exists(p):
            return []
        return [k for k in json.load(open(p)).get("findings", []) if k.get("property") == self.prop]

    def classify(self, key, what, replay_obj):
        """Report a real-code violation unless it is a listed known finding."""
        for k in self.known_findings():
            if k.get("status") == "known" and k.get("key") == key:
                if key not in [x["key"] for x in self.known]:
                    self.known.append({"key": key, "what": k.get("what", what)})
                return False
        self.violation(what, dict(replay_obj, key=key))
        return True

    def add_samples(self, items, limit=6):
        for it in items:
            if len(self.samples) < limit:
                self.samples.append(it)

    def finish(self, level="model_checking", rule="", exhaustive=None, technique=""):
        wall = time.time() - self.t0
        cov = {
            "states": int(self.states),
            "transitions": int(self.transitions),
            "traces_validated_against_impl": int(self.traces_validated),
            "evaluations": int(self.evaluations),
            "distinct_nontrivial": int(self.distinct_nontrivial),
            "rule": rule,
            "samples": self.samples[:8] or ["(none)"],
            "tlc_runs": self.tlc_runs,
            "model_drift": self.drift[:20],
            "known_findings_seen": self.known,
            "technique": technique,
        }
        if exhaustive is not None:
            cov["exhaustive"] = bool(exhaustive)
        cov.update(self.extra)
        ev = {
            "property_id": self.prop, "tier": self.tier, "seed": self.seed, "level": level,
            "coverage": cov, "assumptions": self.assumptions, "wall_s": round(wall, 2),
            "violations": len(self.violations),
        }
        # runs against a scratch worktree (VERIF_REPO, used to try seeded changes) must not
        # overwrite the committed evidence, which describes /repo itself
        evdir = os.environ.get("VERIF_EVIDENCE_DIR") or (
            os.path.join(ROOT, "evidence") if os.path.realpath(REPO) == "/repo" else "/var/tmp/verif-evidence-worktrees")
        os.makedirs(evdir, exist_ok=True)
        with open(os.path.join(evdir, self.prop + ".json"), "w") as f:
            json.dump(ev, f, indent=1, default=str)
        for k in self.known:
            print("KNOWN-FINDING: property=%s %s" % (self.prop, k["what"]))
        for v in self.violations:
            print("VIOLATION property=%s replay=%s" % (self.prop, v["replay"]))
            log("  ", v["what"])
        sys.stdout.flush()
        return EXIT_VIOLATION if self.violations else EXIT_OK


def read_ndjson(path):
    out = []
    with open(path) as f:
        for line in f:
            line = line.strip()
            if line:
                out.append(json.loads(line))
    return out


def write_ndjson(path, items):
    with open(path, "w") as f:
        for it in items:
            f.write(json.dumps(it, separators=(",", ":"), sort_keys=True) + "\n")


def split_traces(events):
    """split a concatenated trace on {"ev":"reset"} records -> list of (id, [events])"""
    out, cur, cid = [], None, None
    for e in events:
        if e.get("ev") == "reset":
            if cur is not None:
                out.append((cid, cur))
            cur, cid = [], e.get("id")
        else:
            if cur is None:
                cur, cid = [], None
            cur.append(e)
    if cur is not None:
        out.append((cid, cur))
    return out


def scripts_from_tlc(printed, cfg=None, start_id=0, limit=None, rng=None, keep=None):
    """turn TLC-printed histories into driver scripts (deduplicated, deterministic order)"""
    seen, out = set(), []
    for h in printed:
        key = json.dumps(h, sort_keys=True)
        if key in seen:
            continue
        seen.add(key)
        if keep and not keep(h):
            continue
        out.append(h)
    out.sort(key=lambda h: json.dumps(h, sort_keys=True))
    if limit is not None and len(out) > limit:
        rng = rng or random.Random(0)
        out = rng.sample(out, limit)
        out.sort(key=lambda h: json.dumps(h, sort_keys=True))
    return [{"id": start_id + i, "cfg": dict(cfg or {}), "steps": h} for i, h in enumerate(out)]


def run_driver(ctx, relpkg, run, overlay, scripts, name, env=None, timeout=900):
    """write scripts, run the injected driver, return the list of recorded events"""
    d = ctx.sub("drv_" + name)
    sp, tp = os.path.join(d, "scripts.ndjson"), os.path.join(d, "trace.ndjson")
    write_ndjson(sp, scripts)
    e = {"VERIF_SCRIPTS": sp, "VERIF_TRACE_OUT": tp}
    e.update(env or {})
    rc, out = ctx.go_test(relpkg, run, overlay, env=e, timeout=timeout, name=name)
    if "VERIF-INFRA" in out:
        raise Infra("driver infrastructure error:\n" + "\n".join([l for l in out.splitlines() if "VERIF-INFRA" in l][:5]))
    if rc != 0 and "VERIF-DONE" not in out:
        raise Infra("driver %s failed without finishing:\n%s" % (run, "\n".join(out.splitlines()[-40:])))
    if not os.path.exists(tp):
        raise Infra("driver %s produced no trace" % run)
    return read_ndjson(tp), out


def _flatten(blocks):
    flat, index = [], []
    for bid, evs in blocks:
        index.append((len(flat), bid))
        flat.append({"ev": "reset", "id": bid})
        flat.extend(evs)
    return flat, index


def validate_blocks(ctx, mon, events, name, consts=None, conf=None, max_rejects=3, timeout=900, defs=None,
                    conf_consts=None, conf_map=None):
    """Validate a concatenated trace (blocks start with a reset record).

    mon  = (module, cfg): the property monitor; a rejection is a property violation candidate.
    conf = (module, cfg): full-spec conformance in strict mode; a rejection is model drift only.
    Rejected blocks are cut out and validation is repeated so that the rest of the trace is
    still checked.  Returns (accepted_block_count, rejects); rejects = [dict(id, info, events, at)]."""
    blocks = split_traces(events)
    rejects = []
    d = ctx.sub("val_" + name)
    cur = list(blocks)      # blocks still to be validated
    good = []               # blocks the monitor accepted
    rounds = 0
    while cur:
        rounds += 1
        flat, index = _flatten(cur)
        tp = os.path.join(d, "t%d.ndjson" % rounds)
        write_ndjson(tp, flat)
        ok, info = ctx.validate_trace(mon[0], mon[1], tp, name="%s_mon%d" % (name, rounds), consts=consts, timeout=timeout)
        if ok:
            good.extend(cur)
            break
        if "high" not in info:
            raise Infra("monitor broke on observed trace: %s" % info)
        pos = info["high"]  # number of lines consumed; the rejected line is flat[pos]
        bi = max(i for i, (start, _) in enumerate(index) if start <= pos)
        bid, evs = cur[bi]
        rejects.append({"id": bid, "info": info, "events": evs, "at": pos - index[bi][0] - 1})
        good.extend(cur[:bi])       # everything before the rejected block was accepted
        cur = cur[bi + 1:]
        if len(rejects) >= max_rejects:
            break                   # enough evidence; the remainder is not claimed as validated
    cur = good
    accepted = len(cur)
    ctx.traces_validated += accepted
    if conf and cur:
        left, nd = list(cur), 0
        while left and nd < 3:
            flat, index = _flatten(left)
            if conf_map:
                flat = [conf_map(e) for e in flat]
            tp = os.path.join(d, "strict%d.ndjson" % nd)
            write_ndjson(tp, flat)
            ok, info = ctx.validate_trace(conf[0], conf[1], tp, name="%s_conf%d" % (name, nd), consts=conf_consts or consts,
                                          strict=True, timeout=timeout, defs=defs)
            if ok:
                break
            nd += 1
            rec = {"trace": name, "info": {k: info.get(k) for k in ("high", "line", "invariant")}}
            ctx.drift.append(rec)
            log("model drift (full-spec conformance) in", name, str(rec)[:300])
            if "high" not in info:
                break
            bi = max(i for i, (start, _) in enumerate(index) if start <= info["high"])
            left = left[:bi] + left[bi + 1:]
        ctx.extra["conformant_traces"] = ctx.extra.get("conformant_traces", 0) + (len(left) if nd < 3 else 0)
    return accepted, rejects


def blind_schedules(rng, threads, n, length):
    """model-independent schedules: seeded random sequences of thread names (a named thread that is
    not at a gate is simply skipped by the controller).  They complement the TLC behaviours, which
    only contain interleavings the MODEL of the current code considers enabled: a change that moves
    or adds synchronisation points enables interleavings the model never schedules."""
    out = []
    for _ in range(n):
        w = {t: rng.choice([1, 1, 2, 3]) for t in threads}
        seq = []
        burst = None
        for _ in range(length):
            if burst and rng.random() < 0.5:
                t = burst
            else:
                t = rng.choices(list(threads), weights=[w[x] for x in threads])[0]
                burst = t
            seq.append(t)
        out.append(seq)
    return out
