// instrument rewrites the synchronisation operations of Go source files so that a
// cooperative scheduler (internal/verifsched) controls their interleaving.
//
//	instrument -out <dir> -skeleton <file.json> -import <verifsched import path> file.go...
//
// It works on syntax patterns only (go/parser, go/ast, go/printer):
//
//	x.Lock() / x.RLock()            -> verifsched.LockOf(&x, id) / RLockOf(&x, id)
//	select {...} (blocking or not)  -> verifsched.Point(id) in front
//	ch <- v, <-ch, v := <-ch        -> verifsched.Point(id) in front (statement level)
//	x.Wait()                        -> verifsched.Point(id) in front
//	go f(...)                       -> verifsched.Go(id, func() { f(...) })
//
// Unlock needs no scheduling point.  A channel operation in a position the tool does
// not understand is an error (exit 2): nothing is silently left free-running.
package main

import (
	"encoding/json"
	"flag"
	"fmt"
	"go/ast"
	"go/parser"
	"go/printer"
	"go/token"
	"os"
	"path/filepath"
	"strings"
)

type op struct {
	Label string `json:"label"`
	Kind  string `json:"kind"`
	Line  int    `json:"line"`
	Text  string `json:"text"`
}

type rewriter struct {
	fset    *token.FileSet
	file    string
	fn      string
	counts  map[string]int
	ops     []op
	errs    []string
	handled map[ast.Node]bool
	nosched map[string]bool
}

func (r *rewriter) label(kind string, n ast.Node, text string) string {
	key := r.fn + ":" + kind
	r.counts[key]++
	l := fmt.Sprintf("%s:%s:%s#%d", r.file, r.fn, kind, r.counts[key])
	r.ops = append(r.ops, op{Label: l, Kind: kind, Line: r.fset.Position(n.Pos()).Line, Text: text})
	return l
}

func call(fn string, args ...ast.Expr) *ast.ExprStmt {
	return &ast.ExprStmt{X: &ast.CallExpr{Fun: &ast.SelectorExpr{X: ast.NewIdent("verifsched"), Sel: ast.NewIdent(fn)}, Args: args}}
}

func str(s string) ast.Expr { return &ast.BasicLit{Kind: token.STRING, Value: fmt.Sprintf("%q", s)} }

func (r *rewriter) exprString(e ast.Node) string {
	var sb strings.Builder
	printer.Fprint(&sb, r.fset, e)
	return sb.String()
}

// isRecv reports whether e is a channel receive expression
func isRecv(e ast.Expr) bool {
	u, ok := e.(*ast.UnaryExpr)
	return ok && u.Op == token.ARROW
}

func (r *rewriter) stmts(list []ast.Stmt) []ast.Stmt {
	var out []ast.Stmt
	for _, s := range list {
		out = append(out, r.stmt(s)...)
	}
	return out
}

// stmt returns the replacement statements for s
func (r *rewriter) stmt(s ast.Stmt) []ast.Stmt {
	switch v := s.(type) {
	case *ast.ExprStmt:
		if c, ok := v.X.(*ast.CallExpr); ok {
			if sel, ok := c.Fun.(*ast.SelectorExpr); ok && len(c.Args) == 0 {
				switch sel.Sel.Name {
				case "Lock", "RLock":
					fn := "LockOf"
					kind := "lock"
					if sel.Sel.Name == "RLock" {
						fn, kind = "RLockOf", "rlock"
					}
					txt := r.exprString(sel.X)
					l := r.label(kind, v, txt)
					return []ast.Stmt{call(fn, &ast.UnaryExpr{Op: token.AND, X: sel.X}, str(l))}
				case "Wait":
					l := r.label("wait", v, r.exprString(sel.X))
					return []ast.Stmt{call("Point", str(l)), v}
				}
			}
		}
		if isRecv(v.X) {
			r.handled[v.X] = true
			l := r.label("recv", v, r.exprString(v.X))
			return []ast.Stmt{call("Point", str(l)), v}
		}
	case *ast.AssignStmt:
		if len(v.Rhs) == 1 && isRecv(v.Rhs[0]) {
			r.handled[v.Rhs[0]] = true
			l := r.label("recv", v, r.exprString(v.Rhs[0]))
			return []ast.Stmt{call("Point", str(l)), v}
		}
	case *ast.SendStmt:
		r.handled[v] = true
		l := r.label("send", v, r.exprString(v.Chan))
		return []ast.Stmt{call("Point", str(l)), v}
	case *ast.SelectStmt:
		kind := "select"
		var chans []string
		for _, cc := range v.Body.List {
			c := cc.(*ast.CommClause)
			if c.Comm == nil {
				kind = "selectnb"
				continue
			}
			r.markComm(c.Comm)
			chans = append(chans, r.exprString(c.Comm))
			c.Body = r.stmts(c.Body)
		}
		for _, cc := range v.Body.List {
			c := cc.(*ast.CommClause)
			if c.Comm == nil {
				c.Body = r.stmts(c.Body)
			}
		}
		l := r.label(kind, v, strings.Join(chans, " | "))
		return []ast.Stmt{call("Point", str(l)), v}
	case *ast.GoStmt:
		l := r.label("go", v, r.exprString(v.Call.Fun))
		if fl, ok := v.Call.Fun.(*ast.FuncLit); ok {
			fl.Body.List = r.stmts(fl.Body.List)
		}
		body := &ast.BlockStmt{List: []ast.Stmt{&ast.ExprStmt{X: v.Call}}}
		return []ast.Stmt{call("Go", str(l), &ast.FuncLit{Type: &ast.FuncType{Params: &ast.FieldList{}}, Body: body})}
	case *ast.BlockStmt:
		v.List = r.stmts(v.List)
	case *ast.IfStmt:
		v.Body.List = r.stmts(v.Body.List)
		if v.Else != nil {
			e := r.stmt(v.Else)
			if len(e) == 1 {
				v.Else = e[0]
			}
		}
	case *ast.ForStmt:
		v.Body.List = r.stmts(v.Body.List)
	case *ast.RangeStmt:
		v.Body.List = r.stmts(v.Body.List)
	case *ast.SwitchStmt:
		for _, cc := range v.Body.List {
			c := cc.(*ast.CaseClause)
			c.Body = r.stmts(c.Body)
		}
	case *ast.TypeSwitchStmt:
		for _, cc := range v.Body.List {
			c := cc.(*ast.CaseClause)
			c.Body = r.stmts(c.Body)
		}
	case *ast.LabeledStmt:
		ss := r.stmt(v.Stmt)
		if len(ss) == 1 {
			v.Stmt = ss[0]
		} else {
			v.Stmt = &ast.BlockStmt{List: ss}
		}
	case *ast.DeferStmt:
		if fl, ok := v.Call.Fun.(*ast.FuncLit); ok {
			fl.Body.List = r.stmts(fl.Body.List)
		}
	}
	return []ast.Stmt{s}
}

func (r *rewriter) markComm(s ast.Stmt) {
	switch c := s.(type) {
	case *ast.SendStmt:
		r.handled[c] = true
	case *ast.ExprStmt:
		r.handled[c.X] = true
	case *ast.AssignStmt:
		for _, e := range c.Rhs {
			r.handled[e] = true
		}
	}
}

func main() {
	out := flag.String("out", "", "output directory")
	skel := flag.String("skeleton", "", "skeleton json output")
	imp := flag.String("import", "berty.tech/weshnet/v2/internal/verifsched", "import path of verifsched")
	only := flag.String("funcs", "", "comma separated list of functions to instrument (default all)")
	flag.Parse()
	want := map[string]bool{}
	for _, f := range strings.Split(*only, ",") {
		if f != "" {
			want[f] = true
		}
	}
	skeleton := map[string][]op{}
	for _, path := range flag.Args() {
		fset := token.NewFileSet()
		f, err := parser.ParseFile(fset, path, nil, 0)
		if err != nil {
			fmt.Fprintln(os.Stderr, "instrument:", err)
			os.Exit(2)
		}
		r := &rewriter{fset: fset, file: filepath.Base(path), counts: map[string]int{}, handled: map[ast.Node]bool{}}
		for _, d := range f.Decls {
			fd, ok := d.(*ast.FuncDecl)
			if !ok || fd.Body == nil {
				continue
			}
			r.fn = fd.Name.Name
			if fd.Recv != nil && len(fd.Recv.List) == 1 {
				t := fd.Recv.List[0].Type
				if st, ok := t.(*ast.StarExpr); ok {
					t = st.X
				}
				if ix, ok := t.(*ast.IndexExpr); ok {
					t = ix.X
				}
				if id, ok := t.(*ast.Ident); ok {
					r.fn = id.Name + "." + fd.Name.Name
				}
			}
			if len(want) > 0 && !want[r.fn] && !want[fd.Name.Name] {
				continue
			}
			fd.Body.List = r.stmts(fd.Body.List)
			// function literals assigned or passed around inside the body
			ast.Inspect(fd.Body, func(n ast.Node) bool {
				switch v := n.(type) {
				case *ast.SendStmt:
					if !r.handled[v] {
						r.errs = append(r.errs, fmt.Sprintf("%s: send in unsupported position", fset.Position(v.Pos())))
					}
				case *ast.UnaryExpr:
					if v.Op == token.ARROW && !r.handled[v] {
						r.errs = append(r.errs, fmt.Sprintf("%s: receive in unsupported position", fset.Position(v.Pos())))
					}
				case *ast.RangeStmt:
					// range over a channel cannot be told from syntax; flag `range x` where x is named like a channel
				}
				return true
			})
		}
		if len(r.errs) > 0 {
			for _, e := range r.errs {
				fmt.Fprintln(os.Stderr, "instrument:", e)
			}
			os.Exit(2)
		}
		if len(r.ops) > 0 {
			// add the import
			f.Decls = append([]ast.Decl{&ast.GenDecl{Tok: token.IMPORT, Specs: []ast.Spec{&ast.ImportSpec{Path: &ast.BasicLit{Kind: token.STRING, Value: fmt.Sprintf("%q", *imp)}}}}}, f.Decls...)
		}
		skeleton[r.file] = r.ops
		var sb strings.Builder
		if err := printer.Fprint(&sb, fset, f); err != nil {
			fmt.Fprintln(os.Stderr, "instrument:", err)
			os.Exit(2)
		}
		src := sb.String()
		if err := os.WriteFile(filepath.Join(*out, filepath.Base(path)), []byte(src), 0o644); err != nil {
			fmt.Fprintln(os.Stderr, "instrument:", err)
			os.Exit(2)
		}
	}
	if *skel != "" {
		b, _ := json.MarshalIndent(skeleton, "", " ")
		os.WriteFile(*skel, b, 0o644)
	}
}
