#!/bin/bash
# usage: tools_confirm_seed.sh <seed dir> <pkg path for demo ('.' for root)> <demo test regex> <existing-tests cmd args...>
# confirms: patch applies to HEAD, existing tests pass with it, demo fails with it and passes without it
sd=$1; pkg=$2; demo=$3; shift 3
export GOFLAGS=-mod=mod GOPROXY=off
wt=/tmp/wt_confirm_$$
git -C /repo worktree add -q --detach $wt HEAD || exit 3
cd $wt
res="$sd/confirm.txt"; : > $res
git apply $sd/patch.diff && echo "patch applies: yes" >> $res || { echo "patch applies: NO" >> $res; git -C /repo worktree remove --force $wt; exit 1; }
(timeout 2400 go test -vet=off -count=1 "$@" > /tmp/confirm_exist_$$.log 2>&1; echo "existing tests with patch ($*): rc=$?" >> $res)
cp $sd/demo_test.go $wt/$pkg/zz_seed_demo_test.go
(timeout 2400 go test -vet=off -count=1 -run "$demo" ./$pkg > /tmp/confirm_demo1_$$.log 2>&1; echo "demo with patch: rc=$? (expected non-zero)" >> $res)
git apply -R $sd/patch.diff
(timeout 2400 go test -vet=off -count=1 -run "$demo" ./$pkg > /tmp/confirm_demo2_$$.log 2>&1; echo "demo without patch: rc=$? (expected 0)" >> $res)
cd /; git -C /repo worktree remove --force $wt; rm -f /tmp/confirm_*_$$.log
cat $res
