"""C06: specs/Handshake.tla bound to internal/handshake (and, second driver, handleIncomingRequest)."""
import json, os, re, time
import vf
import handshake_contact

PKG = "internal/handshake"
FILES = ["vf_handshake_verif_test.go"]
DRV = "^TestVerifHandshakeReplay$"
MON = ("MonHandshake", "Mon_Handshake.cfg")
CONF = ("TraceHandshake", "Trace_Handshake.cfg")
NLOW = 19          # len(vfhLowPoints) in the driver: DJB's twelve + seven with bit 255 set
FTYPES = ["rsa", "secp256k1", "ecdsa"]
ALLD = '{"rAB", "rAE", "rAW", "rBA", "rBE", "rBW", "sA", "sB"}'
ALLDN = '{"rAB", "rAE", "rAW", "rBA", "rBE", "rBW", "sA", "sB", "none"}'

KEY_RESP = "loworder-replay:responder-accepts-A"
KEY_REQ = "loworder-replay:requester-succeeds-without-target"


def S(*names):
    return "{" + ", ".join('"%s"' % n for n in names) + "}"


# ------------------------------------------------------------------------------ model checking
def _par(jobs, n=3):
    """run independent TLC jobs side by side; returns their results in order"""
    from concurrent.futures import ThreadPoolExecutor
    with ThreadPoolExecutor(max_workers=n) as ex:
        futs = [ex.submit(j) for j in jobs]
        return [f.result() for f in futs]


def _model_check_jobs(ctx, out):
    quick = ctx.tier == "quick"
    full3 = {"S1": ALLD, "S2": ALLDN, "S3": ALLDN}
    two = {"S1": ALLD, "S2": ALLDN, "S3": S("none")}
    chain = {"S1": S("rAB"), "S2": S("rAE", "sA"), "S3": S("sA", "sB"), "Sorted": "FALSE"}
    chain1 = {"S1": S("rAB"), "S2": S("rAE"), "S3": S("sB"), "Sorted": "FALSE"}
    jobs = []
    # the design WITH the point check: every invariant, every interleaving, every configuration
    plans = [("2slots", two), ("3slots_chain", chain)] if quick else [("3slots", full3)]
    for nm, c in plans:
        def g(nm=nm, c=c):
            r = ctx.tlc_expect_ok("Handshake", "MC_Handshake.cfg", name="mc_guarded_" + nm, workers=2 if quick else 4,
                                  consts=dict(c, CheckLowOrder="TRUE"), timeout=1500)
            out["guarded_" + nm] = {"distinct": r.distinct, "generated": r.generated, "ok": True}
        jobs.append(g)

    # the design WITHOUT it (what the code does as long as the finding is open): TLC must find the attacks
    def u1():
        r = ctx.tlc("Handshake", "MC_Handshake.cfg", name="mc_unguarded_resp", workers=2,
                    consts=dict(two if quick else full3, CheckLowOrder="FALSE"),
                    timeout=1500, allow_violation=True, count=False)
        out["unguarded_RespAuth"] = {"violated": r.violated, "distinct": r.distinct, "depth": r.depth}
        if r.violated != "RespAuth":
            raise vf.Infra("unguarded model: expected a RespAuth counterexample, got %r" % r.violated)

    def u2():
        r = ctx.tlc("Handshake", "MC_Handshake_ReqAuth.cfg", name="mc_unguarded_req", workers=2,
                    consts=dict(chain1 if quick else full3, CheckLowOrder="FALSE"), timeout=1500, allow_violation=True, count=False)
        out["unguarded_ReqAuth"] = {"violated": r.violated, "distinct": r.distinct, "depth": r.depth}
        if r.violated != "ReqAuth":
            raise vf.Infra("unguarded model: expected a ReqAuth counterexample, got %r" % r.violated)
    return jobs + [u1, u2]


# ---------------------------------------------------------------------------------- generation
def _to_script(h, sid):
    steps = []
    for st in h["steps"]:
        steps.append({k: st[k] for k in ("act", "s", "x", "src", "acct", "pfk", "pfj", "c")})
    expect = [{"out": st["out"], "key": st["key"]} for st in h["steps"]]
    return {"id": sid, "cfg": {"sess": h["cfg"]}, "steps": steps, "attack": bool(h.get("attack")), "expect": expect}


def _relay_junk_base(sc):
    """one corrupted delivery after an otherwise faithful relay between a requester and the responder it
    targets; returns a key (configuration, corrupted step) or None.  What the script does after the
    corrupted delivery (dropping the partner session) is irrelevant."""
    live = [c for c in sc["cfg"]["sess"] if c["role"] != "none"]
    if len(live) != 2 or {c["role"] for c in live} != {"req", "rsp"}:
        return None
    req = [c for c in live if c["role"] == "req"][0]
    rsp = [c for c in live if c["role"] == "rsp"][0]
    if req["target"] != rsp["owner"] or sum(1 for st in sc["steps"] if st["c"]) != 1:
        return None
    for k, st in enumerate(sc["steps"]):
        if st["act"] == "start":
            continue
        if st["src"] == 0 or st["src"] == st["s"] or st["act"] == "drop":
            return None
        if st["c"]:
            return json.dumps([sc["cfg"]["sess"], sc["steps"][:k + 1]], sort_keys=True)
    return None


def _gen(ctx):
    quick = ctx.tier == "quick"
    fam = {}
    seen = set()
    sid = [0]

    def add(name, printed, limit=None):
        hs = vf.scripts_from_tlc(printed, limit=limit, rng=ctx.rng)
        out = []
        for s in hs:
            key = json.dumps(s["steps"], sort_keys=True)
            if key in seen:
                continue
            seen.add(key)
            out.append(_to_script(s["steps"], sid[0]))
            sid[0] += 1
        fam[name] = out

    base = {"CheckLowOrder": "FALSE", "Junk": "TRUE"}
    mc = {}
    res = {}

    # every behaviour of two sessions (all configurations, at most one corrupted frame)
    def g2():
        res["two"] = ctx.tlc("GenHandshake", "Gen_Handshake.cfg", name="gen_2slots", workers=2,
                             consts=dict(base, S1=ALLD, S2=ALLDN, S3=S("none"), MaxJunk="1", AttackOnly="FALSE"),
                             timeout=900, heap="6g").printed.get("SCRIPT", [])

    # three sessions, quick: attack traces of the unguarded model in the configurations that chain sessions
    def g3q():
        res["attack3"] = ctx.tlc("GenHandshake", "Gen_Handshake.cfg", name="gen_3slots_chain", workers=2,
                                 consts=dict(base, S1=S("rAB"), S2=S("rAE", "rBE"), S3=S("sA", "sB"), Sorted="FALSE",
                                             MaxJunk="0", AttackOnly="TRUE"), timeout=900, heap="6g").printed.get("SCRIPT", [])

    # three sessions, thorough: every behaviour of every configuration
    def g3t():
        hs = ctx.tlc("GenHandshake", "Gen_Handshake.cfg", name="gen_3slots", workers=4,
                     consts=dict(base, S1=ALLD, S2=ALLDN, S3=ALLDN, MaxJunk="0", AttackOnly="FALSE"),
                     timeout=2400, heap="12g").printed.get("SCRIPT", [])
        res["attack3"] = [h for h in hs if h.get("attack")]
        res["three"] = [h for h in hs if not h.get("attack")]
    # VERIF_C06_SKIP_MC=1 (development only, e.g. mutation testing): skip the model-checking runs,
    # which do not depend on the code under test
    mcjobs = [] if os.environ.get("VERIF_C06_SKIP_MC") == "1" else _model_check_jobs(ctx, mc)
    _par(mcjobs + [g2, g3q if quick else g3t], n=3 if quick else 2)
    ctx.extra["model_checking"] = mc
    add("two", res["two"])
    if quick:
        add("attack3", res["attack3"], limit=600)
    else:
        add("attack3", res["attack3"], limit=2500)
        add("three", res["three"], limit=8000)
    return fam


def _assign_variants(ctx, fam):
    quick = ctx.tier == "quick"
    scripts = []
    bases = set()
    for name, lst in fam.items():
        for sc in lst:
            cfg = sc["cfg"]
            i = sc["id"]
            uses_low = any(st["x"] == "low" for st in sc["steps"])
            uses_f = any(st["acct"] == "F" for st in sc["steps"])
            junk = any(st["c"] for st in sc["steps"])
            if uses_low:
                if sc["attack"] and (name == "two" or not quick):
                    cfg["low"] = list(range(NLOW))
                elif sc["attack"]:
                    cfg["low"] = sorted({i % NLOW, (i * 7 + 3) % NLOW, (i * 11 + 5) % NLOW})
                else:
                    cfg["low"] = sorted({i % NLOW, (i * 7 + 3) % NLOW}) if quick else sorted({(i + k * 5) % NLOW for k in range(4)})
            if uses_f:
                cfg["ft"] = FTYPES + (["edsmall"] if i % 4 == 0 else [])
            if junk:
                # every bit flip / truncation / oversize / wrong type of every frame of an honest exchange,
                # once per (configuration, frame); a seeded sample of corruptions everywhere else
                bk = _relay_junk_base(sc)
                if bk and bk not in bases and (not quick or sc["cfg"]["sess"][0]["owner"] == "A"):
                    bases.add(bk)
                    cfg["mut"] = "all"
                else:
                    cfg["mut"] = "sample:2" if quick else "sample:6"
            cfg["steps"] = True
            # step-by-step recordings of every sampled corruption (the exhaustive corruption
            # families only in the thorough tier)
            cfg["stepsall"] = junk and (cfg.get("mut") != "all" or not quick)
            sc["family"] = name
            scripts.append(sc)
    return scripts


# ----------------------------------------------------------------------------------- validation
def _failing(fin):
    """which property clause fails on an observed fin record (classification only; the verdict is TLC's)"""
    S_ = fin["sess"]
    bad = []

    def same(r, s):
        return r["oe"] != "-" and s["oe"] != "-" and s["pe"] == r["oe"] and r["pe"] == s["oe"]
    for s in S_:
        if s["role"] == "rsp" and s["ret"] == "ok" and s["key"] in ("A", "B"):
            if not any(r["role"] == "req" and r["owner"] == s["key"] and r["target"] == s["owner"] and r["s3"] and same(r, s) for r in S_):
                bad.append(("resp", s))
        if s["role"] == "rsp" and s["ret"] == "ok" and len(s["in"]) == 3 and s["in"][2] == "I:ack-":
            bad.append(("ack", s))
        if s["oeh"] != "-" and any(t is not s and t["oeh"] == s["oeh"] for t in S_):
            bad.append(("fresh", s))
        if s["role"] == "rsp" and s["ret"] == "ok" and s["key"] == "-":
            bad.append(("nokey", s))
        if s["role"] == "req" and s["ret"] == "ok" and s["target"] != "E":
            if not any(t["role"] == "rsp" and t["owner"] == s["target"] and t["s4"] and same(s, t) for t in S_):
                bad.append(("req", s))
    return bad


MON_FIELDS = ("role", "owner", "target", "ret", "key", "oe", "oeh", "pe", "s3", "s4", "in")


def _validate_chunk(ctx, name, blocks, tolerate, max_rejects):
    cur = list(blocks)
    rejects = []
    d = ctx.sub("val_" + name)
    rounds = 0
    while cur:
        rounds += 1
        tp = os.path.join(d, "t%d.ndjson" % rounds)
        vf.write_ndjson(tp, [{"ev": "fin", "sess": [{k: s[k] for k in MON_FIELDS} for s in evs[-1]["sess"]]} for _, evs in cur])
        ok, info = ctx.validate_trace(MON[0], MON[1], tp, name="%s_%d" % (name, rounds),
                                      consts={"TolerateLow": "TRUE" if tolerate else "FALSE"}, timeout=1200)
        if ok:
            break
        if "high" not in info:
            raise vf.Infra("monitor broke on observed trace: %s" % info)
        bi = info["high"]
        bid, evs = cur[bi]
        rejects.append({"id": bid, "info": info, "events": evs})
        cur = cur[:bi] + cur[bi + 1:]
        if len(rejects) >= max_rejects:
            cur = []
            break
    return len(cur), rejects


def _validate(ctx, name, blocks, tolerate, max_rejects=3, chunk=15000):
    """TLC evaluates the property monitor on the fin record of every run (one line per run), in
    chunks validated by up to four TLC processes side by side.  Rejected runs are cut out and the
    rest of their chunk is validated again.  Returns (accepted, rejects)."""
    chunks = [blocks[k:k + chunk] for k in range(0, len(blocks), chunk)]
    if len(chunks) <= 1:
        return _validate_chunk(ctx, name, blocks, tolerate, max_rejects)
    from concurrent.futures import ThreadPoolExecutor
    with ThreadPoolExecutor(max_workers=4) as ex:
        futs = [ex.submit(_validate_chunk, ctx, "%s_c%d" % (name, k), c, tolerate, max_rejects) for k, c in enumerate(chunks)]
        res = [f.result() for f in futs]
    rejects = [r for _, rj in res for r in rj]
    return sum(a for a, _ in res), rejects[:max(max_rejects, 1)] if len(rejects) > max_rejects else rejects


def _run(ctx, replay=None):
    t0 = time.time()
    ov = ctx.overlay({PKG: FILES})
    if replay:
        rp = json.load(open(replay))
        if rp.get("family") == "contactpending":
            import contactpending
            contactpending.run_part(ctx)
            return ctx.finish(level="model_checking", rule="replay: pending outgoing request, announced key vs authenticated key", exhaustive=False,
                              technique="replay")
        if "contact_script" in rp:
            handshake_contact.phase(ctx, replay_script=rp["contact_script"])
            return ctx.finish(level="model_checking", rule="replay of one recorded run through handleIncomingRequest", exhaustive=False,
                              technique="replay")
        scripts = [rp["script"]]
    else:
        fam = _gen(ctx)
        scripts = _assign_variants(ctx, fam)
        ctx.extra["bounds"] = {"scripts_per_family": {k: len(v) for k, v in fam.items()}, "sessions": "<=3",
                               "low_encodings": NLOW, "foreign_key_types": FTYPES + ["edsmall"]}
    if not scripts:
        raise vf.Infra("no scripts generated")
    byid = {s["id"]: s for s in scripts}
    drv = [{"id": s["id"], "cfg": s["cfg"], "steps": s["steps"]} for s in scripts]
    t1 = time.time()
    events, out = vf.run_driver(ctx, PKG, DRV, ov, drv, "replay", env={"VERIF_WORKERS": "8"}, timeout=1500)
    ctx.extra["driver_wall_s"] = round(time.time() - t1, 1)
    m = re.search(r"VERIF-LOWPOINTS (.*)", out)
    if m:
        ctx.extra["low_points"] = m.group(1).split("; ")
    # the reset records carry the concretisation of each run
    resets = {e["id"]: e for e in events if e.get("ev") == "reset"}
    blocks = sorted(vf.split_traces(events), key=lambda b: (resets[b[0]]["sid"], b[0]))
    if len(resets) != len(blocks):
        raise vf.Infra("duplicate run identifiers in the recorded trace")
    for bid, evs in blocks:
        if not evs or evs[-1].get("ev") != "fin":
            raise vf.Infra("block %s has no fin record" % bid)
    seen_sid = {s["id"] for s in scripts}
    got = {resets[b]["sid"] for b, _ in blocks}
    if got != seen_sid:
        raise vf.Infra("driver did not record every script (%d of %d)" % (len(got), len(seen_sid)))
    ctx.evaluations += len(blocks)
    nontrivial = 0
    panics = []
    for bid, evs in blocks:
        fin = evs[-1]
        if any(s["nf"] >= 2 for s in fin["sess"]):
            nontrivial += 1
        for s in fin["sess"]:
            if s["ret"] == "panic":
                panics.append({"block": bid, "session": s})
    ctx.distinct_nontrivial += nontrivial
    ctx.extra["exhaustive_corruption_families"] = sum(1 for s in scripts if s["cfg"].get("mut") == "all")
    ctx.extra["corrupted_runs"] = sum(1 for b, _ in blocks if resets[b].get("mut"))
    if panics:
        ctx.extra["panics_observed"] = panics[:5]
    # observation (not judged: the key belongs to nobody honest): the Ed25519 identity point, a key
    # without a private half for which (R = identity, S = 0) verifies over every message
    small = [b for b, evs in blocks if resets[b].get("ft") == "edsmall"
             and any(s["role"] == "rsp" and s["ret"] == "ok" and s["key"] == "F" for s in evs[-1]["sess"])]
    if small:
        ctx.extra.setdefault("observations", []).append(
            "responder returned the small-order Ed25519 identity key (no private half exists; the all-purpose signature "
            "R=identity,S=0 verifies) in %d runs, e.g. run %s" % (len(small), small[0]))

    def replay_obj(bid, evs):
        rs = resets[bid]
        sc = byid[rs["sid"]]
        parts = bid.split("/")
        cfg = dict(sc["cfg"])
        cfg["low"] = [int(parts[1])]
        cfg["ft"] = [parts[2]] if parts[2] else []
        if int(parts[3]) >= 0:
            cfg["mut"] = "one:%s" % parts[3]
        cfg["steps"] = True
        return {"script": {"id": sc["id"], "cfg": cfg, "steps": sc["steps"]}, "concretisation": rs,
                "observed": evs, "model_expectation": sc.get("expect")}

    # pass 1: the property monitor, strict, over every run
    bymap = dict(blocks)
    acc, rejects = _validate(ctx, "mon", blocks, False, max_rejects=1)
    if not rejects:
        ctx.traces_validated += acc
    else:
        # pass 2: excuse sessions that were fed a degenerate ephemeral, so that any OTHER violation surfaces
        acc2, other = _validate(ctx, "mon_tolerant", blocks, True, max_rejects=3)
        ctx.traces_validated += acc2
        for rj in other:
            line = rj["info"].get("line", {})
            what = "real handshake code breaks C06 (not explained by a degenerate ephemeral): observed %s" % json.dumps(line, sort_keys=True)[:700]
            ctx.violation(what, replay_obj(rj["id"], bymap[rj["id"]]))
        # the runs the tolerant pass excused: pick one canonical run per clause, have TLC reject it
        # on its own (strict), and report it under its canonical key
        cands = {KEY_RESP: [], KEY_REQ: []}
        for bid, evs in blocks:
            bad = _failing(evs[-1])
            if bad and all(s["pe"] == "low" and kind in ("resp", "req") for kind, s in bad):
                if any(k == "resp" for k, _ in bad):
                    cands[KEY_RESP].append(bid)
                if any(k == "req" for k, _ in bad):
                    cands[KEY_REQ].append(bid)
        ctx.extra["runs_exhibiting_finding"] = {k: len(v) for k, v in cands.items()}
        reported = 0
        for key in (KEY_RESP, KEY_REQ):
            if not cands[key]:
                continue
            bid = sorted(cands[key], key=lambda b: (len(byid[resets[b]["sid"]]["steps"]), resets[b]["sid"], b))[0]
            _, rj1 = _validate(ctx, "mon_one_" + key.split(":")[1][:4], [(bid, bymap[bid])], False, max_rejects=1)
            if not rj1:
                raise vf.Infra("classification disagrees with the TLC monitor on run %s" % bid)
            reported += 1
            fin = bymap[bid][-1]
            kind = "resp" if key == KEY_RESP else "req"
            s_ = [b for k, b in _failing(fin) if k == kind][0]
            if key == KEY_RESP:
                what = ("responder of account %s returned the account key of %s although %s never ran a session with this "
                        "ephemeral pair: the peer sent a degenerate X25519 ephemeral (%s) and replayed a proof signed over the "
                        "constant shared secret [%d recorded runs]" % (s_["owner"], s_["key"], s_["key"], resets[bid]["low"], len(cands[key])))
            else:
                what = ("requester %s->%s succeeded against an endpoint that does not hold the target's private key: degenerate "
                        "ephemeral (%s) + replay of a step-4 box sealed for the constant shared secret [%d recorded runs]"
                        % (s_["owner"], s_["target"], resets[bid]["low"], len(cands[key])))
            ctx.classify(key, what, replay_obj(bid, bymap[bid]))
        if not reported and not other:
            # TLC rejected a run that neither pass explains: report it as it is
            rj = rejects[0]
            ctx.violation("real handshake code breaks C06: observed %s" % json.dumps(rj["info"].get("line", {}), sort_keys=True)[:700],
                          replay_obj(rj["id"], bymap[rj["id"]]))

    # conformance with the full specification (drift only)
    conf_blocks = [(bid, evs) for bid, evs in blocks if len(evs) > 1 and resets[bid].get("model")]
    if conf_blocks and not replay:
        _conformance_with_resets(ctx, conf_blocks, resets)
    # second driver: the same intruder against handleIncomingRequest of a real service (root package)
    if not replay and (ctx.tier != "quick" or os.environ.get("VERIF_C06_CONTACT") == "1"):
        handshake_contact.phase(ctx)
    if not replay:
        # every tier: a node with a pending outgoing request; the peer authenticates as E and announces another key
        import contactpending
        contactpending.run_part(ctx)
    for s in scripts:
        if s.get("attack") and len(ctx.samples) < 2:
            bid = [b for b, _ in blocks if resets[b]["sid"] == s["id"]][0]
            ctx.add_samples([{"script": s["steps"], "cfg": s["cfg"]["sess"], "observed": bymap[bid][-1]}], limit=3)
    ctx.extra["wall_breakdown_s"] = {"total": round(time.time() - t0, 1)}
    ctx.assumptions += [
        "symbolic (Dolev-Yao) crypto: perfect boxes/signatures/hash, plus the degenerate point with DH(x, low) = Zero; the intruder owns E, F, one ephemeral",
        "at most three honest sessions, accounts A and B; canonical delivery order in generated scripts (all interleavings only in the model check)",
        "frame corruptions enumerated by the driver per abstract corrupted delivery: every bit flip, every truncation, oversize/empty/padded/duplicated frames, wrong frame type",
        "ephemeral keys compared in canonical form (bit 255 masked, reduced mod p)",
        "TLC, the Go toolchain, golang.org/x/crypto, libp2p crypto trusted",
    ]
    return ctx.finish(level="model_checking",
                      rule="runs = TLC-generated intruder scripts x concretisations (19 degenerate/non-canonical X25519 encodings, RSA/secp256k1/ECDSA identities, frame corruptions); non-trivial = some honest session got past the hello exchange (emitted its step-3/4 frame)",
                      exhaustive=False,
                      technique="TLA+ spec Handshake.tla (Dolev-Yao intruder, degenerate point) model-checked by TLC with and without the point check; TLC-generated attack and relay scripts executed by a concrete intruder against the real RequestUsingReaderWriter/ResponseUsingReaderWriter; recorded returns checked by TLC against the property monitor MonHandshake.tla (verdict) and the full spec TraceHandshake.tla (conformance/drift)")


def _conf_chunk(ctx, name, blocks, resets, val):
    """full-spec conformance of one chunk of step-by-step recordings; returns (conformant, drift)"""
    left = list(blocks)
    drift = []
    rounds = 0
    d = ctx.sub("conf_" + name)
    while left and rounds < 3:
        flat, index = [], []
        for bid, evs in left:
            index.append((len(flat), bid))
            flat.append({"ev": "reset", "id": bid, "d": resets[bid]["d"]})
            flat.extend(evs)
        tp = os.path.join(d, "t%d.ndjson" % rounds)
        vf.write_ndjson(tp, flat)
        ok, info = ctx.validate_trace(CONF[0], CONF[1], tp, name="conf_%s_%d" % (name, rounds),
                                      consts={"CheckLowOrder": val}, strict=True, timeout=1200)
        if ok:
            break
        rounds += 1
        if "high" not in info:
            raise vf.Infra("conformance spec broke: %s" % info)
        bi = max(i for i, (start, _) in enumerate(index) if start <= info["high"])
        drift.append({"block": left[bi][0], "line": info.get("line"), "impl_checkLowOrder": val})
        left = left[:bi] + left[bi + 1:]
    return (len(left) if rounds < 3 else 0), drift


def _conformance_with_resets(ctx, blocks, resets, chunk=2500):
    from concurrent.futures import ThreadPoolExecutor
    # which Impl value to try first: did any recorded session go on after a degenerate hello?
    went_on = any(e.get("ev") == "hello" and e.get("x") == "low" and not e.get("c") and e.get("out") == "frame"
                  for _, evs in blocks for e in evs)
    order = ("FALSE", "TRUE") if went_on else ("TRUE", "FALSE")
    chunks = [blocks[k:k + chunk] for k in range(0, len(blocks), chunk)]
    res = {}
    for val in order:
        with ThreadPoolExecutor(max_workers=4) as ex:
            futs = [ex.submit(_conf_chunk, ctx, "%s_c%d" % (val, k), c, resets, val) for k, c in enumerate(chunks)]
            out = [f.result() for f in futs]
        res[val] = (sum(a for a, _ in out), [d for _, dr in out for d in dr])
        about_impl = [d for d in res[val][1] if (d.get("line") or {}).get("x") == "low"]
        if len(res[val][1]) < 3 or len(about_impl) < 3:
            break   # (nearly) everything conforms with this value, or the disagreement is not about it
    best = min(res, key=lambda v: (len(res[v][1]), v != order[0]))
    ctx.extra["impl_checkLowOrder_observed"] = best
    ctx.extra["conformant_traces"] = res[best][0]
    ctx.extra["conformance_blocks"] = len(blocks)
    for dr in res[best][1][:20]:
        ctx.drift.append(dr)
        vf.log("model drift (full-spec conformance):", str(dr)[:400])


def run_c06(ctx, replay=None):
    return _run(ctx, replay)
