"""C18: specs/Framing.tla bound to pkg/protoio (length-delimited writers/readers)."""
import json, os
from concurrent.futures import ThreadPoolExecutor
import vf

POOL = 4         # independent TLC runs (1 worker each) executed side by side


def _par(jobs):
    """run thunks side by side; results in order; the first exception is re-raised"""
    with ThreadPoolExecutor(max_workers=POOL) as ex:
        futs = [ex.submit(j) for j in jobs]
        return [f.result() for f in futs]

PKG = "pkg/protoio"
FILES = ["vf_framing_verif_test.go"]
MON = ("MonFraming", "Mon_Framing.cfg")
CONF = ("TraceFraming", "Trace_Framing.cfg")
DRV = "^TestVerifFramingReplay$"
FUZZ = "^TestVerifFramingFuzz$"
PER = 16          # block id = script id * PER + run index (see the driver)

ALLRAW = '{"overlong", "ovf9", "huge", "big", "nonmin", "top"}'


def _sizes(L):
    return "{" + ", ".join(str(s) for s in sorted({0, 1, 2, L - 1, L, L + 1})) + "}"


def _model_check(ctx):
    quick = ctx.tier == "quick"
    jobs = [
        lambda: ctx.tlc_expect_ok("Framing", "MC_Framing.cfg", name="mc_L2", workers=2,
                                  consts={"Sizes": _sizes(2), "Limit": "2", "MaxMsgs": "2" if quick else "3"}),
        lambda: ctx.tlc_expect_ok("Framing", "MC_Framing.cfg", name="mc_L3", workers=2,
                                  consts={"Sizes": _sizes(3), "Limit": "3", "MaxMsgs": "2" if quick else "3",
                                          "MaxN": "100" if quick else "13"}, timeout=1200),
        # multi-byte varints at model level: digit base 2, so that lengths 2..4 take 2-3 prefix bytes
        lambda: ctx.tlc_expect_ok("Framing", "MC_Framing.cfg", name="mc_base2", workers=2,
                                  consts={"D": "2", "Sizes": _sizes(3), "Limit": "3", "MaxMsgs": "1" if quick else "2",
                                          "Variants": '{"varint"}', "RawKinds": '{"overlong", "ovf9", "huge", "big"}'}),
    ]
    # the same model with each implementation choice flipped must break an invariant
    # (shows at design level what the choice is for; not a verdict about the code)
    flips = (("ImplCmp", '"ge"'), ("ImplCheckFirst", "FALSE"), ("ImplReadFull", "FALSE"))
    if not quick:
        for k, v in flips:
            c = {"Sizes": _sizes(2), "Limit": "2", "MaxMsgs": "1", "Variants": '{"varint", "u32be"}', k: v}
            jobs.append(lambda k=k, c=c: ctx.tlc("Framing", "MC_Framing.cfg", name="mc_flip_" + k, workers=1, consts=c,
                                                 allow_violation=True, count=False))
    res = _par(jobs)
    if not quick:
        seen = {}
        for (k, v), r in zip(flips, res[3:]):
            seen[k + "=" + v] = r.violated
            if r.violated is None:
                raise vf.Infra("model self-test: flipping %s does not violate any invariant of Framing.tla" % k)
        ctx.extra["design_level_flips"] = seen


VRAW = '{"overlong", "ovf9", "huge", "big", "nonmin"}'
URAW = '{"big", "top"}'


def _gen(ctx):
    """returns list of scripts (cfg carries L, variants, real limits)"""
    quick = ctx.tier == "quick"
    scripts = []
    V, U = ["varint"], ["u32be", "u32le"]

    def add(printed, L, v, reals, limit=None, realcuts=False):
        sc = vf.scripts_from_tlc(printed, cfg={"L": L, "variants": V if v == "varint" else U, "R": reals,
                                               "realcuts": realcuts},
                                 start_id=len(scripts), limit=limit, rng=ctx.rng)
        scripts.extend(sc)
        return sc

    # exhaustive: every input x every chunking within the bounds.  Real limit = abstract limit
    # is the exact scale (abstract bytes are real bytes), the others are scaled.
    #  variant   L msgs MaxN raw  K  real limits
    if quick:
        plans = [('varint', 2, 2, 100, '{}', 3, [2, 2048]),
                 ('varint', 3, 2, 100, '{}', 3, [3, 8]),
                 ('varint', 2, 1, 11, VRAW, 3, [2, 2048]),
                 ('u32be', 2, 1, 100, URAW, 3, [2, 2048]),
                 ('u32be', 3, 2, 10, '{}', 2, [3])]
    else:
        plans = [('varint', 2, 3, 100, '{}', 3, [2, 8, 2048]),
                 ('varint', 3, 3, 11, '{}', 3, [3, 2048]),
                 ('varint', 3, 2, 12, VRAW, 3, [3, 2048]),
                 ('u32be', 2, 2, 100, URAW, 3, [2]),
                 ('u32be', 3, 2, 11, URAW, 3, [3]),
                 ('u32be', 2, 3, 13, '{}', 2, [2])]
    CAP = 100000 if quick else 8000     # per plan; beyond it a seeded sample is replayed (recorded below)

    def bfs(plan):
        (v, L, mm, mn, raw, k, reals) = plan
        name = "gen_%s_L%d_m%d_%d" % (v, L, mm, mn)
        r = ctx.tlc("GenFraming", "Gen_Framing.cfg", name=name, workers=1,
                    consts={"Variants": '{"%s"}' % v, "Limit": str(L), "Sizes": _sizes(L), "MaxMsgs": str(mm),
                            "MaxN": str(mn), "RawKinds": raw, "K": str(k)}, timeout=1500, heap="4g")
        pr = r.printed.get("SCRIPT", [])
        if not pr:
            raise vf.Infra("generator produced no script for plan %s" % name)
        return name, pr

    # random walks over larger inputs (3 messages, whole catalogue), replayed with scaled
    # limits, and once more with seeded chunkings of the real stream
    sims = [('varint', 3, 700), ('u32be', 2, 500)] if quick else \
           [('varint', 2, 1200), ('varint', 3, 1200), ('u32be', 2, 1000), ('u32be', 3, 1000)]

    def sim(plan):
        (v, L, num) = plan
        r = ctx.tlc("GenFraming", "Gen_Framing.cfg", name="sim_%s_L%d" % (v, L), workers=1,
                    simulate="num=%d" % num, depth=200,
                    consts={"Variants": '{"%s"}' % v, "Limit": str(L), "Sizes": _sizes(L), "MaxMsgs": "3",
                            "MaxN": "100", "RawKinds": VRAW if v == "varint" else URAW, "K": "3"},
                    timeout=1500, heap="4g")
        pr = r.printed.get("SCRIPT", [])
        if not pr:
            raise vf.Infra("simulation produced no script")
        return pr

    res = _par([lambda p=p: bfs(p) for p in plans] + [lambda p=p: sim(p) for p in sims])
    ex = {}
    for plan, (name, pr) in zip(plans, res[:len(plans)]):
        n = len(add(pr, plan[1], plan[0], plan[6], limit=CAP))
        ex[name] = {"enumerated": len(pr), "replayed": n, "exhaustive": n == len(pr)}
    ctx.extra["exhaustive_plans"] = ex
    for (v, L, num), pr in zip(sims, res[len(plans):]):
        add(pr, L, v, [L, 2048] if quick else [L, 8, 2048])
        add(pr, L, v, [8, 65536] if quick else [8, 2048, 65536], realcuts=True,
            limit=(len(pr) // 3) if quick else None)
    return scripts


def _nontrivial(sc):
    reads = [s for s in sc["steps"] if s["act"] == "read"]
    fr = sc["steps"][0]["a"]["frames"]
    return len(fr) >= 1 and any(s["res"]["ok"] for s in reads) and reads[-1]["res"]["err"] != "eof" or \
        (len(fr) >= 2 and any(c > 1 for c in sc["steps"][0]["a"]["cs"]))


def run(ctx, replay=None):
    quick = ctx.tier == "quick"
    ov = ctx.overlay({PKG: FILES})
    fuzz_n = 0
    if replay:
        rp = json.load(open(replay))
        if "fuzz" in rp:
            scripts, fuzz_from, fuzz_n = [], rp["fuzz"], 1
        else:
            scripts = [rp["script"]]
    else:
        _model_check(ctx)
        scripts = _gen(ctx)
        fuzz_from, fuzz_n = 0, (6000 if quick else 60000)
    byid = {s["id"]: s for s in scripts}
    jobs, blocks, fev, fuzz_dead = [], [], [], None
    if scripts:
        events, _ = vf.run_driver(ctx, PKG, DRV, ov, scripts, "replay", timeout=1500)
        blocks = vf.split_traces(events)
        nruns = {}
        for bid, evs in blocks:
            nruns[bid // PER] = nruns.get(bid // PER, 0) + 1
        for s in scripts:
            if nruns.get(s["id"], 0) != len(s["cfg"]["variants"]) * len(s["cfg"]["R"]):
                raise vf.Infra("driver did not record every run of script %d" % s["id"])
        # conformance needs the abstract limit as a constant: group by L; slices bound TLC's
        # memory and are validated side by side
        groups = {}
        for bid, evs in blocks:
            groups.setdefault(byid[bid // PER]["cfg"]["L"], []).append((bid, evs))
        SL = 6000 if quick else 12000
        for L, bl in sorted(groups.items()):
            for off in range(0, len(bl), SL):
                evs = []
                for bid, e in bl[off:off + SL]:
                    evs.append({"ev": "reset", "id": bid})
                    evs.extend(e)
                jobs.append(lambda evs=evs, L=L, name="L%d_%d" % (L, off // SL): ("replay", _validate(ctx, evs, name, L)))
    if fuzz_n:
        d = ctx.sub("drv_fuzz")
        tp = os.path.join(d, "trace.ndjson")
        rc, out = ctx.go_test(PKG, FUZZ, ov, env={"VERIF_TRACE_OUT": tp, "VERIF_FUZZ_N": fuzz_n, "VERIF_FUZZ_FROM": fuzz_from},
                              timeout=900, name="fuzz")
        if "VERIF-INFRA" in out or rc != 0 or not os.path.exists(tp):
            # a dead driver is never a verdict by itself (e.g. the runtime's fatal out-of-memory is
            # not recoverable); it is reported as infrastructure failure unless the replayed
            # scripts already show a violation on the real code
            fuzz_dead = "fuzz driver failed:\n" + "\n".join(out.splitlines()[-30:])
            fuzz_n = 0
        else:
            fev = vf.read_ndjson(tp)
            jobs.append(lambda: ("fuzz", vf.validate_blocks(ctx, MON, fev, "fuzz", timeout=1500)))
    for kind, (acc, rejects) in _par(jobs):
        for rj in rejects:
            line = rj["info"].get("line", {})
            if kind == "fuzz":
                ctx.violation("arbitrary input #%s breaks C18: %s" % (line.get("i"), json.dumps(line, sort_keys=True)[:300]),
                              {"fuzz": line.get("i"), "rejected_line": line})
                continue
            sc = byid[rj["id"] // PER]
            inp = rj["events"][0] if rj["events"] else {}
            what = "real %s reader (limit %s) breaks C18 at recorded line %s: %s" % (
                inp.get("variant"), inp.get("limit"), rj["at"], json.dumps(line, sort_keys=True)[:300])
            ctx.violation(what, {"script": sc, "observed": rj["events"], "rejected_line": line, "step": rj["at"]})
    if fuzz_dead:
        if not ctx.violations:
            raise vf.Infra(fuzz_dead)
        ctx.extra["fuzz_driver_died"] = fuzz_dead[-600:]
    if scripts:
        ctx.evaluations += len(blocks)
        ctx.distinct_nontrivial += sum(1 for s in scripts if _nontrivial(s))
        first = {}
        for b, e in blocks:
            first.setdefault(b // PER, e)
        for s in scripts:
            if _nontrivial(s) and len(s["steps"]) >= 4:
                ctx.add_samples([{"cfg": s["cfg"], "script": s["steps"], "observed": first[s["id"]]}], limit=2)
                if len(ctx.samples) >= 2:
                    break
    if fuzz_n:
        nf = sum(1 for e in fev if e.get("ev") == "fuzz")
        ctx.evaluations += nf
        ctx.extra["fuzz_inputs"] = nf
        ctx.extra["fuzz_with_delivery"] = sum(1 for e in fev if e.get("ev") == "fuzz" and e.get("oks", 0) > 0)
    ctx.extra["bounds"] = {"scripts": len(scripts), "runs": ctx.evaluations - ctx.extra.get("fuzz_inputs", 0)}
    ctx.assumptions += [
        "messages are wrapperspb/anypb values of exact encoded sizes (size 1 does not exist in protobuf: abstract size 1 is mapped to 2)",
        "abstract streams are scaled to real limits by a piecewise monotone position map (exact when the real limit equals the abstract one)",
        "buffer capacity is read by reflection over the reader's []byte fields that changed since construction; allocation per call from runtime/metrics, re-measured exactly (runtime.ReadMemStats, same input, fresh reader) when it looks larger than limit + 32 KiB; 64 KiB allowance",
        "a truncation right after a complete prefix is reported by the code as io.EOF: accepted as 'an error' (the property does not ask for a distinguishable one)",
        "TLC 1.8.0, Go toolchain, bufio.Reader default buffer size (4096) larger than every scaled chunk"]
    return ctx.finish(level="model_checking",
                      rule="runs = (TLC-enumerated input x chunking) x variant x real limit; inputs = every message sequence over sizes {0,1,2,L-1,L,L+1} (<= MaxMsgs), every truncation point, catalogue of malformed/non-canonical prefixes; chunkings = every sequence of Read sizes 1..3; plus -simulate walks and seeded real chunkings and arbitrary byte strings; non-trivial = at least one delivered frame followed by a refused one, or a multi-frame stream cut by chunks > 1",
                      exhaustive=False,
                      technique="TLA+ spec Framing.tla (reader automaton + chunker) model-checked by TLC; TLC-enumerated inputs and chunkings replayed on the real writers/readers; recorded ReadMsg outcomes checked by TLC against the property monitor MonFraming.tla (verdict) and against the full automaton TraceFraming.tla (conformance/drift)")


def _validate(ctx, evs, name, L):
    """monitor without constants, conformance with the abstract limit of the group"""
    acc, rejects = vf.validate_blocks(ctx, MON, evs, name, timeout=1500)
    if not rejects:
        d = ctx.sub("val_" + name)
        tp = os.path.join(d, "strict.ndjson")
        vf.write_ndjson(tp, evs)
        ok, info = ctx.validate_trace(CONF[0], CONF[1], tp, name=name + "_conf", strict=True, timeout=1500,
                                      consts={"Limit": str(L)})
        if ok:
            ctx.extra["conformant_traces"] = ctx.extra.get("conformant_traces", 0) + acc
        else:
            rec = {"trace": name, "info": {k: info.get(k) for k in ("high", "line", "invariant")}}
            ctx.drift.append(rec)
            vf.log("model drift (full-spec conformance) in", name, str(rec)[:400])
    return acc, rejects
