"""C02 / C14 (and C05b): specs/Ratchet.tla bound to pkg/secretstore."""
import json, os
import vf

PKG = "pkg/secretstore"
FILES = ["vf_world_verif_test.go", "vf_ratchet_verif_test.go"]


def _gen(ctx, with_push):
    """model check, then generate scripts; returns {(W,N): [scripts]}"""
    quick = ctx.tier == "quick"
    # 1. exhaustive model checking of the design (all invariants + action properties)
    ctx.tlc_expect_ok("Ratchet", "MC_Ratchet.cfg", name="mc_1dev")
    ctx.tlc_expect_ok("Ratchet", "MC_Ratchet.cfg", name="mc_2dev",
                      consts={"Dev": '{"d1","d2"}', "MaxSent": "2", "W": "1", "N": "1"})
    if not quick:
        ctx.tlc_expect_ok("Ratchet", "MC_Ratchet.cfg", name="mc_1dev_w3",
                          consts={"MaxSent": "5", "W": "3", "N": "1"}, timeout=1500)
    groups = {}
    nid = [0]

    def add(W, N, printed, limit=None):
        keep = None
        sc = vf.scripts_from_tlc(printed, cfg={"W": W, "N": N}, start_id=nid[0], limit=limit, rng=ctx.rng, keep=keep)
        nid[0] += len(sc)
        groups.setdefault((W, N), []).extend(sc)

    push = "TRUE" if with_push else "FALSE"
    # 2. exhaustive phased enumeration (small windows)
    plans = [(1, 1, 2, 4), (2, 1, 3, 4), (3, 2, 3, 3)] if quick else \
            [(1, 1, 3, 5), (2, 1, 3, 5), (2, 2, 4, 4), (3, 2, 4, 4), (4, 3, 4, 4)]
    for (W, N, ms, ml) in plans:
        r = ctx.tlc("GenRatchet", "Gen_Ratchet.cfg", name="gen_W%d_N%d" % (W, N), workers=1 if quick else 4,
                    consts={"W": str(W), "N": str(N), "MaxSent": str(ms), "MaxLen": str(ml), "WithPush": push},
                    timeout=1200, heap="8g")
        add(W, N, r.printed.get("SCRIPT", []), limit=6000 if quick else 30000)
    # 3. random walks: unphased, two senders, larger windows and the default 100/100
    sims = [(2, 2, 8, 14, 300), (4, 2, 10, 16, 300), (100, 100, 30, 40, 60)] if quick else \
           [(2, 2, 8, 14, 3000), (4, 2, 12, 20, 3000), (3, 5, 12, 20, 2000), (100, 100, 60, 80, 400), (100, 100, 250, 300, 40)]
    for (W, N, ms, ml, num) in sims:
        r = ctx.tlc("GenRatchet", "Gen_Ratchet.cfg", name="sim_W%d_N%d_%d" % (W, N, ms), workers=1,
                    simulate="num=%d" % num, depth=ml * 3 + 20,
                    consts={"W": str(W), "N": str(N), "MaxSent": str(ms), "MaxLen": str(ml), "Phased": "FALSE",
                            "Dev": '{"d1","d2"}', "WithPush": push}, timeout=1200, heap="8g")
        # keep the longest history of each walk only (prefixes are printed too)
        hs = r.printed.get("SCRIPT", [])
        hs.sort(key=len, reverse=True)
        kept, seen = [], set()
        for h in hs:
            key = json.dumps(h[:ml], sort_keys=True)
            if key in seen:
                continue
            seen.add(key)
            kept.append(h)
            if len(kept) >= num:
                break
        add(W, N, kept)
    # 4. model-independent histories (no TLC behaviour behind them, the monitor judges whatever is observed):
    #    stragglers - one message overtaken by a whole window and more of its successors - and random open orders
    #    with retries.  A key that is dropped, or a window that stops following, only shows on histories longer
    #    than the exhaustive bounds above.
    def blind(W, N, steps):
        groups.setdefault((W, N), []).append({"id": nid[0], "cfg": {"W": W, "N": N}, "steps": steps, "blind": True})
        nid[0] += 1

    def op(act, x=0):
        return {"act": act, "d": "d1", "x": x, "res": {}}
    for (W, N) in ([(1, 1), (2, 1), (3, 2), (100, 100)] if quick else [(1, 1), (2, 1), (2, 2), (3, 2), (4, 3), (100, 100)]):
        n = 2 * W + 3
        head = [op("announce"), op("register", 0)] + [op("seal") for _ in range(n)]
        for j in range(1, min(W, 3) + 1):
            # everything but j in increasing order (each is inside the window when its turn comes), then j, then all again
            order = [k for k in range(1, n + 1) if k != j] + [j]
            blind(W, N, head + [op("open", k) for k in order] + [op("open", k) for k in range(1, n + 1)])
        if W <= 4:
            for _ in range(20 if quick else 200):
                seq = [ctx.rng.randint(1, n) for _ in range(3 * n)]
                blind(W, N, head + [op("open", k) for k in seq] + [op("open", k) for k in list(range(1, n + 1)) * 2])
    return groups


def _nontrivial(sc):
    acts = [s["act"] for s in sc["steps"]]
    oks = [s["res"].get("ok") for s in sc["steps"] if s["act"] in ("open", "push")]
    return ("register" in acts) and (True in oks) and (False in oks or len(set(acts)) >= 4)


def _strip_push(sc):
    return {"id": sc["id"], "cfg": sc["cfg"], "steps": [s for s in sc["steps"] if s["act"] not in ("push", "refs")]}


MON = ("MonRatchet", "Mon_Ratchet.cfg")
CONF = ("TraceRatchet", "Trace_Ratchet.cfg")
DRV = "^TestVerifRatchetReplay$"


def _run(ctx, with_push, replay=None):
    ov = ctx.overlay({PKG: FILES})
    if replay:
        rp = json.load(open(replay))
        groups = {(rp["script"]["cfg"]["W"], rp["script"]["cfg"]["N"]): [rp["script"]]}
    else:
        groups = _gen(ctx, with_push)
    allscripts = {}
    for scripts in groups.values():
        for s in scripts:
            allscripts[s["id"]] = s
    if not allscripts:
        raise vf.Infra("no scripts generated")
    events, _ = vf.run_driver(ctx, PKG, DRV, ov, list(allscripts.values()), "replay")
    byid = dict(vf.split_traces(events))
    if set(byid) != set(allscripts):
        raise vf.Infra("driver did not record every script")
    for (W, N), scripts in sorted(groups.items()):
        name = "W%d_N%d" % (W, N)
        consts = {"W": str(W), "N": str(N)}
        evs = []
        for s in scripts:
            evs.append({"ev": "reset", "id": s["id"]})
            evs.extend(byid[s["id"]])
        acc, rejects = vf.validate_blocks(ctx, MON, evs, name, consts=consts, conf=CONF)
        ctx.evaluations += len(scripts)
        ctx.distinct_nontrivial += sum(1 for s in scripts if _nontrivial(s))
        for rj in rejects:
            sc = allscripts[rj["id"]]
            line = rj["info"].get("line", {})
            if with_push and line.get("ev") not in ("push", "refs"):
                # differential: is the log path broken even without any push step?  then it is C02's business
                sc2 = _strip_push(sc)
                nm = "diff%d" % sc["id"]
                ev2, _ = vf.run_driver(ctx, PKG, DRV, ov, [sc2], nm)
                _, rj2 = vf.validate_blocks(ctx, MON, ev2, nm, consts=consts)
                ctx.traces_validated -= 0 if rj2 else 1
                if rj2:
                    ctx.extra.setdefault("outside_property", []).append({"script": sc["id"], "line": line, "note": "log path fails without any push step: C02's business, not C14's"})
                    continue
            what = "real secret store breaks %s at step %s: observed %s" % (ctx.prop, rj["at"], json.dumps(line, sort_keys=True))
            ctx.violation(what, {"script": sc, "observed": rj["events"], "rejected_line": line, "step": rj["at"]})
        for s in scripts:
            if _nontrivial(s) and len(ctx.samples) < 3:
                ctx.add_samples([{"cfg": s["cfg"], "script": s["steps"], "observed": byid[s["id"]]}], limit=3)
                break
    if not with_push and ctx.tier != "quick" and not replay:
        # thorough tier of C02: the recorded executions of the repository's own scenario tests
        import scenario_traces
        scenario_traces.run_part(ctx)
    ctx.extra["bounds"] = {"scripts_per_window": {("W%d_N%d" % k): len(v) for k, v in groups.items()}}
    ctx.assumptions += ["symbolic view of keys/payloads: one abstract message per (device, counter); bytes come from VERIF_SEED",
                        "CIDs passed to the store are always defined and are the identifier of the presented envelope",
                        "TLC 1.8.0, Go toolchain, in-memory datastore (go-datastore MapDatastore)"]
    return ctx.finish(level="model_checking",
                      rule="scripts = every phased history TLC enumerates for small windows plus -simulate walks (two senders, default window 100); non-trivial = contains a registration, a successful and a refused open/push (or >=4 distinct action kinds)",
                      exhaustive=False,
                      technique="TLA+ spec Ratchet.tla model-checked by TLC; TLC-generated behaviours replayed on real secret stores; recorded traces checked by TLC against the property monitor MonRatchet.tla (verdict) and the full spec TraceRatchet.tla (conformance/drift)")


def run_c02(ctx, replay=None):
    return _run(ctx, False, replay)


def run_c14(ctx, replay=None):
    return _run(ctx, True, replay)
