"""C07 at the SERVICE / RPC layer: specs/ContactApi.tla bound to a real in-process protocol service.

run_part(ctx, replay_obj=None) adds its TLC runs, evaluations, samples, drift and violations to the ctx of the
registered C07 check (checks/c07.py -> grouplog_check.run_c07 drives the MetadataStore directly; this part drives
the RPC handlers of api_contactrequest.go / api_contact.go in front of it).

  design level   MC_ContactApi.cfg: the lifecycle machine of appendix A is what the index derives from the log
  scripts        GenContactApi (TLC): ALL sequences of the seven contact operations of a bounded length on one and
                 two contacts, all (operation, malformed variant) pairs, -simulate walks over the whole alphabet
                 (switch / reference / share requests, restarts, optional values); plus a model-independent layer:
                 seeded random request sequences and the malformed catalogue applied in every lifecycle state
  replay         harness/root/vf_contactapi_verif_test.go on a real service (handlers called directly and through
                 the in-memory gRPC client); several histories share one service (fresh contacts each, a restart of
                 the service on the same datastores after every history)
  verdict        MonContactApi (TLC on the recorded trace); TraceContactApi = full-spec conformance (drift only:
                 secret-store / opened-group observations live there)
"""
import json, os, shutil, threading
import vf

PKG = "."
FILES = ["vf_contactapi_verif_test.go"]
DRV = "^TestVerifContactApi$"
MON = ("MonContactApi", "Mon_ContactApi.cfg")
CONF = ("TraceContactApi", "Trace_ContactApi.cfg")

LIFE = ["enq", "sent", "recv", "disc", "acc", "blk", "unb"]
SWITCH = ["en", "dis", "rs", "ref", "share"]
BADV = {"enq": ["nil", "noseed", "shortseed", "longseed", "badkey", "nokey", "self"],
        "recv": ["shortseed", "longseed", "badkey", "nokey", "self"],
        "sent": ["self"],
        "acc": ["self", "badkey", "longkey", "nokey"], "disc": ["self", "badkey", "longkey", "nokey"],
        "blk": ["self", "badkey", "longkey", "nokey"], "unb": ["self", "badkey", "longkey", "nokey"]}
ALLBAD = sorted(set(v for vs in BADV.values() for v in vs))
# shortest request sequences that bring a fresh contact into each lifecycle state (only used to PLACE the malformed
# catalogue and the random walks; the monitor judges every step from the reported state, whatever these reach)
REACH = {"U": [], "T": ["enq"], "R": ["recv"], "A": ["recv", "acc"], "D": ["recv", "disc"], "B": ["blk"], "X": ["blk", "unb"]}


def tla_set(xs):
    return "{" + ", ".join('"%s"' % x if isinstance(x, str) else str(x) for x in xs) + "}"


def op(s, x=0, y=0):
    return {"act": "op", "d": "rpc", "s": s, "x": x, "y": y, "res": {}}


RESTART = {"act": "restart", "d": "rpc", "s": "-", "x": 0, "y": 0, "res": {}}


def design_level(ctx):
    quick = ctx.tier == "quick"
    consts = {"Contacts": tla_set(["c1", "c2"]), "MaxLog": "3" if quick else "4", "Ys": "{3}" if quick else "{1, 2}",
              "Bad": tla_set(["self"] if quick else ["self", "noseed"])}
    r = ctx.tlc("ContactApi", "MC_ContactApi.cfg", name="mc_contactapi", workers=4, timeout=1500, consts=consts, allow_violation=True)
    if not r.ok:
        raise vf.Infra("ContactApi.tla must satisfy its invariants: %s" % (r.violated or r.error))
    ctx.extra.setdefault("design_level", {})["ContactApi"] = {"distinct": r.distinct, "generated": r.generated, "wall_s": round(r.wall, 1)}


def tlc_histories(ctx):
    """[(plan, contacts per history, [history])] out of GenContactApi"""
    quick = ctx.tier == "quick"
    plans = [
        # name, contacts, ops, bad variants, Ys, MaxLen, restart, simulate walks (None = exhaustive)
        ("all-1c", 1, LIFE, [], [3], 3 if quick else 4, False, None),
        ("all-2c", 2, LIFE, [], [1] if quick else [2], 2 if quick else 3, False, None),
        ("bad-1c", 1, LIFE, ALLBAD, [0], 1 if quick else 2, False, None),
        ("walk", 2, LIFE + SWITCH, ALLBAD, [0, 1, 2, 3], 10 if quick else 14, True, 200 if quick else 400),
        ("walk-life", 2, LIFE, ["self", "badkey"], [0, 1, 2, 3], 12 if quick else 16, True, 80 if quick else 250),
    ]
    if quick:       # the malformed pairs are in the model-independent catalogue; one walk family (fewer TLC start-ups)
        plans = [p for p in plans if p[0] not in ("bad-1c", "walk-life")]
    out = []
    for (name, nc, ops, bad, ys, ml, rst, walks) in plans:
        consts = {"Contacts": tla_set(["c%d" % (i + 1) for i in range(nc)]), "MaxLog": "100", "Ys": tla_set(ys),
                  "Bad": tla_set(bad), "MaxLen": str(ml), "Ops": tla_set(ops), "WithRestart": "TRUE" if rst else "FALSE"}
        kw = dict(simulate="num=%d" % walks, depth=ml + 2) if walks else {}
        r = ctx.tlc("GenContactApi", "Gen_ContactApi.cfg", name="gen_contactapi_" + name, workers=1 if walks else 2,
                    consts=consts, timeout=1500, heap="4g", **kw)
        hs = vf.scripts_from_tlc(r.printed.get("SCRIPT", []), limit=walks, rng=ctx.rng)
        if not hs:
            raise vf.Infra("GenContactApi produced no history for plan " + name)
        out.append((name, nc, [s["steps"] for s in hs], walks is None))
    return out


def blind_histories(ctx):
    """model-independent layer: (a) the malformed catalogue - every (operation, malformed variant) pair and every
    well-formed operation - applied to a contact placed in each lifecycle state; (b) seeded random request sequences
    over the whole alphabet on 1-3 contacts"""
    quick = ctx.tier == "quick"
    rng = ctx.rng
    cat = []
    pairs = [(o, v) for o in LIFE for v in BADV[o]]
    for state, pre in sorted(REACH.items()):
        steps = [op(s, 1, 3) for s in pre]
        order = list(pairs)
        rng.shuffle(order)
        for (o, v) in order:
            steps.append(op("%s!%s" % (o, v), 1, rng.randrange(4)))
        # ... followed by every well-formed operation on a second contact brought into the same state
        for o in LIFE:
            k = 2 + LIFE.index(o)
            steps += [op(s, k, rng.randrange(4)) for s in pre] + [op(o, k, rng.randrange(4))]
        cat.append(steps)
    walks = []
    alphabet = [(o, "") for o in LIFE] * 4 + [("recv", "noseed")] * 2 + pairs + [(o, "") for o in SWITCH] * 2 \
        + [("enq", "sameseed")] * 4 + [("recv", "sameseed")] * 2
    for _ in range(40 if quick else 200):
        nc = rng.choice([1, 2, 2, 3])
        steps = []
        for c in range(1, nc + 1):     # start somewhere in the lifecycle, not always at U
            steps += [op(s, c, rng.randrange(4)) for s in REACH[rng.choice(sorted(REACH))]]
        for _ in range(rng.randrange(4, 16 if quick else 28)):
            if steps and rng.random() < 0.06 and steps[-1]["act"] != "restart":
                steps.append(dict(RESTART))
                continue
            o, v = rng.choice(alphabet)
            steps.append(op(o + ("!" + v if v else ""), rng.randrange(1, nc + 1) if o in LIFE else 0, rng.randrange(4)))
        walks.append((nc, steps))
    # a request re-sent with the SAME seed but other metadata / own metadata, in every state where it is legal
    resend = []
    for state, pre in sorted(REACH.items()):
        steps = [op(s, 1, 3) for s in pre]
        for y in (1, 2, 0, 3):
            steps.append(op("enq!sameseed", 1, y))
        steps += [dict(RESTART), op("recv!sameseed", 1, 1), op("enq!sameseed", 1, 2)]
        resend.append(steps)
    return [("resend", 1, resend, False)] + [("catalogue", 2 + len(LIFE), cat, False)] + [("random-%dc" % k, k, [s for (n, s) in walks if n == k], False) for k in (1, 2, 3)]


def batch(plans, per_script, rng):
    """several histories share one service: history j works on its own fresh contacts; the script ends with a restart of
    the service on the same datastores (all contacts of all its histories are reported before and after it); every third
    script goes through the in-memory gRPC client instead of calling the handlers directly"""
    scripts = []
    for (name, nc, hs, exhaustive) in plans:
        if not hs:
            continue
        k = max(1, per_script // (sum(len(h) for h in hs) // len(hs) + 1))      # about per_script steps per service
        for b in range(0, len(hs), k):
            steps, segs = [], []
            for j, h in enumerate(hs[b:b + k]):
                start = len(steps)
                for st in h:
                    st = dict(st)
                    if st["act"] == "op" and st.get("x", 0) > 0:
                        st["x"] = st["x"] + j * nc
                    st["res"] = {}
                    steps.append(st)
                segs.append([start, len(steps)])
            if steps[-1]["act"] != "restart":
                steps.append(dict(RESTART))     # every history of the script is compared across this restart
            scripts.append({"id": len(scripts), "cfg": {"contacts": nc * len(segs), "via": "grpc" if len(scripts) % 3 == 2 else "direct",
                                                        "plan": name, "segments": segs}, "steps": steps})
    return scripts


def describe(sc, upto):
    return " ; ".join(("%s c%d" % (x["s"], x["x"]) if x["act"] == "op" and x.get("x") else x["s"] if x["act"] == "op" else "RESTART")
                      for x in sc["steps"][:upto])


def classify(sc, rj):
    line = rj["info"].get("line", {})
    evs = rj["events"]
    at = rj["at"]                       # index of the rejected line among the block's lines (0 = init)
    before = evs[at - 1]["st"]["cs"].get(line.get("c"), "-") if at >= 1 and "st" in evs[at - 1] else "-"
    # the history (segment) of the batch the rejected step belongs to
    seg = next((s for s in sc["cfg"].get("segments", []) if s[0] < max(at, 1) <= s[1]), [0, len(sc["steps"])])
    hist = describe({"steps": sc["steps"][seg[0]:]}, max(at, 1) - seg[0])
    if line.get("ev") == "op":
        app = [a.get("k") + ":" + ("same" if a.get("sub") == line.get("c") else a.get("sub") if a.get("sub") in ("self", "-", "?") else "other")
               for a in line.get("app", [])]
        key = "api:%s:%s:ok=%s:app=%s" % (line.get("s"), before, line.get("ok"), ",".join(app))
        changed = [k for k in ("st", "rpc") if at >= 1 and evs[at - 1].get(k) != line.get(k)]
        what = ("contact lifecycle broken at the RPC layer (%s): `%s` on %s reported %s before: accepted=%s codes=%s appended=%s "
                "request carried %s; after: state %s seed/meta/own %s/%s/%s, RPC view %s; views changed by the step: %s (history: %s)" % (
                    sc["cfg"].get("via"), line.get("s"), line.get("c"), before, line.get("ok"), line.get("codes"), line.get("app"),
                    line.get("arg"), line.get("st", {}).get("cs", {}).get(line.get("c")),
                    line.get("st", {}).get("cseed", {}).get(line.get("c")), line.get("st", {}).get("cmeta", {}).get(line.get("c")),
                    line.get("st", {}).get("cown", {}).get(line.get("c")),
                    {k: line.get("rpc", {}).get(k) for k in ("en", "seed")}, changed, hist))
    elif line.get("ev") == "restart":
        key = "api:restart"
        diff = {k: [evs[at - 1].get(k), line.get(k)] for k in ("st", "rpc") if at >= 1 and evs[at - 1].get(k) != line.get(k)}
        what = "after a restart of the service on the same datastores the reported contacts differ: %s (history: %s)" % (
            json.dumps(diff, sort_keys=True)[:600], hist)
    else:
        key = "api:%s" % line.get("ev")
        what = "a fresh service does not report the empty contact state: %s" % json.dumps({k: line.get(k) for k in ("st", "rpc")}, sort_keys=True)[:500]
    return key, what


def run_part(ctx, replay_obj=None):
    quick = ctx.tier == "quick"
    ov = ctx.overlay({PKG: FILES})
    ov2 = os.path.join(os.path.dirname(ov), "overlay_contactapi.json")
    shutil.copy(ov, ov2)                 # ctx.overlay always writes the same file: keep ours apart
    built = {}

    def build():
        try:
            built["bin"] = ctx.go_test_compile(PKG, ov2, name="contactapi")
        except Exception as e:          # re-raised in the main thread
            built["err"] = e
    th = threading.Thread(target=build)
    th.start()                           # the test binary links while TLC checks the design and generates
    try:
        scripts = gen_scripts(ctx, replay_obj)
    finally:
        th.join()
    if "err" in built:
        raise built["err"]
    binary = built["bin"]
    return replay(ctx, binary, scripts)


def gen_scripts(ctx, replay_obj):
    quick = ctx.tier == "quick"
    if replay_obj:
        scripts = [replay_obj["script"]]
    else:
        design_level(ctx)
        plans = tlc_histories(ctx) + blind_histories(ctx)
        scripts = batch(plans, 40 if quick else 60, ctx.rng)
        lim = int(os.environ.get("VERIF_CA_LIMIT", "0") or 0)
        if lim:
            scripts = ctx.rng.sample(scripts, min(lim, len(scripts)))
        for i, s in enumerate(scripts):
            s["id"] = i
    return scripts


def replay(ctx, binary, scripts):
    events = ctx.run_sharded(binary, DRV, PKG, scripts, "contactapi", shards=int(os.environ.get("VERIF_CA_SHARDS", "4" if ctx.tier == "quick" else "6")),
                             env={"VERIF_WORKERS": os.environ.get("VERIF_CA_WORKERS", "2")}, timeout=2400, chunk=150)
    byid = {s["id"]: s for s in scripts}
    # trace validation in groups of services (bounded trace files, up to three TLC runs side by side); the model's
    # contact universe for the conformance pass covers every script
    maxc = max(s["cfg"]["contacts"] for s in scripts)
    conf_consts = {"Contacts": tla_set(["c%d" % (i + 1) for i in range(maxc)])}
    blocks_all = vf.split_traces(events)
    G = 150
    groups = [blocks_all[g:g + G] for g in range(0, len(blocks_all), G)]
    results = [None] * len(groups)
    tv0, ct0, nd0 = ctx.traces_validated, ctx.extra.get("conformant_traces", 0), len(ctx.drift)

    def validate(k):
        flat = []
        for bid, evs in groups[k]:
            flat.append({"ev": "reset", "id": bid})
            flat.extend(evs)
        try:
            results[k] = vf.validate_blocks(ctx, MON, flat, "contactapi%d" % k, conf=CONF, conf_consts=conf_consts, timeout=1800)
        except Exception as e:
            results[k] = e
    pending = list(range(len(groups)))
    running = []
    while pending or running:
        while pending and len(running) < 3:
            t = threading.Thread(target=validate, args=(pending.pop(0),))
            t.start()
            running.append(t)
        running[0].join()
        running = [t for t in running if t.is_alive()]
    rejects = []
    conformant = 0
    for k, r in enumerate(results):
        if isinstance(r, Exception):
            raise r
        rejects += r[1]
        nd = sum(1 for d in ctx.drift[nd0:] if d.get("trace") == "contactapi%d" % k)
        conformant += (r[0] - nd) if nd < 3 else 0
    for d in ctx.drift[nd0:]:           # keep the drift records readable: the fields the model disagrees about
        ln = (d.get("info") or {}).get("line") or {}
        if isinstance(ln, dict) and "st" in ln:
            d["info"]["line"] = {k: ln.get(k) for k in ("ev", "i", "s", "c", "ok", "codes", "app", "arg", "reply", "sec", "opn") if k in ln}
            d["info"]["line"]["reported"] = {k: ln["st"].get(k, {}).get(ln.get("c")) if isinstance(ln["st"].get(k), dict) else ln["st"].get(k)
                                             for k in ("cs", "cseed", "cmeta", "cown", "sw", "seed")}
            d["note"] = "RPC layer: the recorded step is not the ContactApi.tla action (outcome, reported state, or the secret-store / opened-group observation differs)"
    # the counters validate_blocks keeps are not thread-safe: set them from the per-group results
    ctx.traces_validated = tv0 + sum(r[0] for r in results)
    ctx.extra["conformant_traces"] = ct0 + conformant
    ops = [e for e in events if e.get("ev") == "op"]
    blocks = dict(vf.split_traces(events))
    # measured coverage: (state reported before, request, accepted?) triples met on the real service
    triples, hist_nontrivial = set(), 0
    for bid, evs in blocks.items():
        for k, e in enumerate(evs):
            if e.get("ev") == "op" and k >= 1:
                triples.add((evs[k - 1]["st"]["cs"].get(e.get("c"), "-"), e.get("s"), e.get("ok"), byid[bid]["cfg"].get("via")))
        for (a, b) in byid[bid]["cfg"].get("segments", []):
            if sum(1 for e in evs[1 + a:1 + b] if e.get("ev") == "op" and e.get("ok")) >= 2:
                hist_nontrivial += 1
    nhist = sum(len(s["cfg"].get("segments", [1])) for s in scripts)
    ctx.evaluations += nhist
    ctx.distinct_nontrivial += hist_nontrivial
    info = {"services": len(scripts), "histories": nhist, "requests": len(ops), "restarts": sum(1 for e in events if e.get("ev") == "restart"),
            "through_grpc_client": sum(1 for s in scripts if s["cfg"].get("via") == "grpc"),
            "state_request_outcome_triples": len(triples),
            "plans": {}}
    for s in scripts:
        info["plans"][s["cfg"].get("plan")] = info["plans"].get(s["cfg"].get("plan"), 0) + len(s["cfg"].get("segments", [1]))
    ms = sorted(e.get("ms", 0) + e.get("rms", 0) for e in ops)
    if ms:
        info["ms_per_request_median"] = ms[len(ms) // 2]
    ctx.extra["rpc_layer"] = info
    for rj in rejects:
        sc = byid[rj["id"]]
        key, what = classify(sc, rj)
        ctx.classify(key, what, {"script": sc, "observed": rj["events"][:rj["at"] + 1], "rejected_line": rj["info"].get("line", {}),
                                 "step": rj["at"], "family": "contactapi"})
    for bid, evs in blocks.items():
        good = [e for e in evs if e.get("ev") == "op" and e.get("ok")]
        if len(good) >= 3 and not any(r["id"] == bid for r in rejects):
            ctx.add_samples([{"rpc_layer_script": describe(byid[bid], 12), "via": byid[bid]["cfg"].get("via"),
                              "observed_step": {k: good[2].get(k) for k in ("s", "c", "ok", "app", "st", "rpc", "sec")}}], limit=8)
            break
    ctx.assumptions += ["RPC layer: one in-process protocol service over a mocked IPFS node (no peers), in-memory datastores that survive a restart of the service; "
                        "a restart closes service, secret store, IPFS node and network and opens new ones on the same two datastores",
                        "RPC layer: outgoing-sent / incoming-received have no RPC and are issued on the account group's MetadataStore of the running service"]
    return scripts
