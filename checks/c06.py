import handshake


def run(ctx, replay=None):
    return handshake.run_c06(ctx, replay)
