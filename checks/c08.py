import pipeline_check


def run(ctx, replay=None):
    return pipeline_check.run(ctx, replay)
