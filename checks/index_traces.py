"""Trace validation of the repository's OWN multi-peer tests for C04 (thorough tier; a small slice in quick):

metadataStoreIndex.UpdateIndex is renamed in a COPY of store_metadata_index.go and replaced, through the build
overlay, by a recording wrapper (harness/root/zz_vfidx_verif.go).  The unchanged tests are run - several peers,
real pubsub replication, concurrent writers - and every index update of every peer is recorded: handled entry set
and reported state, read under the index's own lock.  TLC checks the snapshots against MonIndexSnap.tla: whenever
two snapshots (any peers, any time) hold the same entry set of a group, they report the same state."""
import json, os, re, subprocess
import vf

QUICK_TESTS = "TestFlappyMultiDevices_Basic|TestScenario_AddContact|TestMetadataContactLifecycle|TestMetadataGroupsLifecycle|TestMetadataAliasLifecycle|TestMetadataStoreMember"
THOROUGH_TESTS = ("TestScenario_CreateMultiMemberGroup|TestScenario_MessageMultiMemberGroup|TestScenario_AddContact|"
                  "TestScenario_MessageContactGroup|TestScenario_MessageAccountGroup$|TestScenario_MessageAccountAndContactGroups|"
                  "TestMetadataStoreSecret_Basic|TestMetadataStoreMember|TestMetadataRendezvousPointLifecycle|TestMetadataContactLifecycle|"
                  "TestMetadataAliasLifecycle|TestMetadataGroupsLifecycle|TestFlappyMultiDevices_Basic|TestContactRequestFlow|"
                  "TestReactivateAccountGroup|TestReactivateContactGroup|TestReactivateMultimemberGroup")


def overlay(ctx):
    src = open(os.path.join(vf.REPO, "store_metadata_index.go")).read()
    new, n = re.subn(r"func \((\w+) \*metadataStoreIndex\) UpdateIndex\(", r"func (\1 *metadataStoreIndex) vfUpdateIndexOrig(", src)
    if n != 1:
        raise vf.Infra("store_metadata_index.go: UpdateIndex not found (recorder cannot be injected)")
    d = ctx.sub("idxrec")
    p = os.path.join(d, "store_metadata_index.go")
    open(p, "w").write(new)
    rep = {os.path.join(vf.REPO, "store_metadata_index.go"): p,
           os.path.join(vf.REPO, "zz_vfidx_verif.go"): os.path.join(vf.HARNESS, "root/zz_vfidx_verif.go")}
    ov = os.path.join(d, "overlay.json")
    json.dump({"Replace": rep}, open(ov, "w"))
    return ov


def run_part(ctx, tests=None, timeout=None):
    quick = ctx.tier == "quick"
    tests = tests or (QUICK_TESTS if quick else THOROUGH_TESTS)
    timeout = timeout or (600 if quick else 1500)
    ov = overlay(ctx)
    d = ctx.sub("idxrec")
    tp = os.path.join(d, "idx.ndjson")
    env = ctx.go_env({"VERIF_IDX_TRACE": tp, "TEST_STABILITY": "flappy", "TEST_SPEED": "fast"})
    cmd = ["go", "test", "-tags", "verif", "-vet=off", "-count=1", "-overlay", ov, "-run", tests, "-timeout", "%ds" % timeout, "."]
    p = subprocess.run(cmd, cwd=vf.REPO, env=env, stdout=subprocess.PIPE, stderr=subprocess.STDOUT, text=True, errors="replace", timeout=timeout + 300)
    info = {"cmd": "go test -tags verif -overlay <recorder> -run " + tests + " .", "rc": p.returncode}
    ctx.extra["own_tests_index_snapshots"] = info
    if "[build failed]" in p.stdout:
        raise vf.Infra("index recorder does not build against the current tree:\n" + "\n".join(p.stdout.splitlines()[:30]))
    if not os.path.exists(tp):
        raise vf.Infra("the repository's tests recorded no index snapshot:\n" + "\n".join(p.stdout.splitlines()[-20:]))
    evs = vf.read_ndjson(tp)
    evs.sort(key=lambda e: e["seq"])
    # one block per group; entry hashes -> small integers (per group); exact duplicates dropped (lossless here)
    groups = {}
    for e in evs:
        groups.setdefault(e["g"], []).append(e)
    events, bid, judged, skipped = [], 0, 0, 0
    meta = {}
    for g, ges in sorted(groups.items()):
        ids = {}
        seen = set()
        blk = []
        for e in ges:
            s = sorted(ids.setdefault(h, len(ids) + 1) for h in e["set"])
            key = (tuple(s), e["view"], e["rel"], e["own"], e["complete"])
            if key in seen:
                continue
            seen.add(key)
            if e["complete"]:
                judged += 1
            else:
                skipped += 1
            blk.append({"ev": "snap", "set": s, "view": e["view"], "rel": e["rel"], "own": e["own"][:8], "complete": bool(e["complete"]),
                        "idx": e["idx"], "gt": e["gt"]})
        if len(set(x["idx"] for x in blk)) < 1 or not blk:
            continue
        events.append({"ev": "reset", "id": bid})
        events.extend(blk)
        meta[bid] = {"group": g[:12], "type": ges[0]["gt"], "replicas": len(set(x["idx"] for x in blk)), "snapshots": len(blk),
                     "largest_set": max(len(x["set"]) for x in blk)}
        bid += 1
    acc, rejects = vf.validate_blocks(ctx, ("MonIndexSnap", "Mon_IndexSnap.cfg"), events, "idxsnap")
    multi = [m for m in meta.values() if m["replicas"] > 1]
    info.update({"index_updates_recorded": len(evs), "groups": len(meta), "groups_with_several_replicas": len(multi),
                 "distinct_complete_snapshots_judged": judged, "incomplete_snapshots_skipped": skipped,
                 "largest_entry_set": max([m["largest_set"] for m in meta.values()] or [0])})
    ctx.evaluations += judged
    ctx.assumptions += ["index snapshots: the repository's own tests (%d test functions selected by name, run unchanged with TEST_STABILITY=flappy) are the workload; "
                        "a snapshot is judged only when the handled entry set is the whole log" % (tests.count("|") + 1)]
    ctx.distinct_nontrivial += sum(m["snapshots"] for m in multi)
    for rj in rejects:
        line = rj["info"].get("line", {})
        m = meta.get(rj["id"], {})
        ctx.violation("the repository's own tests break C04: in group %s (%s, %d replicas) index #%s reports, for an entry set of %d entries, "
                      "a state that differs from what was reported for the same set before" % (
                          m.get("group"), m.get("type"), m.get("replicas", 0), line.get("idx"), len(line.get("set", []))),
                      {"family": "index_snapshots", "rejected_line": line, "block": rj["events"][:200], "tests": tests})
    if meta:
        ctx.add_samples([{"own_tests_group": multi[0] if multi else list(meta.values())[0]}], limit=8)
    return info
