"""C03: specs/MetaEnvelope.tla bound to openGroupEnvelope / openMetadataEntry / MetadataStore (root package)."""
import json, os, threading
import vf

FILES = ["vf_metasig_verif_test.go"]
DRV = "^TestVerifMetaSig$"
MON = ("MonMetaEnvelope", "Mon_MetaEnvelope.cfg")
CONF = ("TraceMetaEnvelope", "Trace_MetaEnvelope.cfg")

MDA = "GroupMemberDeviceAdded"
INIT = "MultiMemberGroupInitialMemberAnnounced"
SMALL = '{"GroupMemberDeviceAdded", "MultiMemberGroupInitialMemberAnnounced", "GroupDeviceChainKeyAdded"}'

# weakened signer tables the model must reject (otherwise the model checks nothing)
WEAK = [("GroupDeviceChainKeyAdded", "none"), (MDA, "devonly"), (INIT, "none"), ("AccountGroupJoined", "grp"), (MDA, "dev")]


# ---- a python mirror of the classification, used for sampling and statistics only (never for a verdict)
def _field_at(pd, n):
    if pd["shape"] == MDA:
        return pd["mem"] if n == 1 else pd["dev"] if n == 2 else "junk"
    if pd["shape"] == INIT:
        return pd["mem"] if n == 1 else "absent"
    return pd["dev"] if n == 1 else "junk"


def _sig_ok(k, pd, sig):
    return k in ("devA", "devV", "memA", "memV", "grp") and not pd["flip"] and sig["st"] == "ok" and sig["by"] == k and sig["over"] == pd


def _right_signer(tm):
    pd = tm["pd"]
    if tm["ty"] == MDA:
        ms = pd["msig"]
        return (pd["shape"] == MDA and ms["st"] == "ok" and ms["by"] == pd["mem"] and ms["over"] == pd["dev"]
                and _sig_ok(_field_at(pd, 2), pd, tm["sig"]))
    if tm["ty"] == INIT:
        return _sig_ok("grp", pd, tm["sig"])
    return _sig_ok(_field_at(pd, 1), pd, tm["sig"])


def classify(tm):
    dec = tm["box"] == "g" and tm["nonce"] == "ok"
    known = tm["ty"] != "Unknown"
    if not dec or not known or not _right_signer(tm):
        return "forged"
    return "correct" if tm["pd"]["shape"] == tm["ty"] else "open"


def features(tm):
    pd, sig = tm["pd"], tm["sig"]
    rule = "memdev" if tm["ty"] == MDA else "grp" if tm["ty"] == INIT else "unknown" if tm["ty"] == "Unknown" else "dev"
    by = sig["by"]
    rel = "none" if sig["st"] == "none" else "field" if by == _field_at(pd, 2 if tm["ty"] == MDA else 1) else by[:3]
    return (rule, pd["shape"] == tm["ty"], sig["st"], rel, sig["over"] == pd, sig["over"]["shape"] == pd["shape"], tm["box"], tm["nonce"],
            pd["flip"], pd["dev"], pd["mem"], json.dumps(pd["msig"], sort_keys=True) if pd["shape"] == MDA else "")


def is_honest_base(tm):
    pd, sig = tm["pd"], tm["sig"]
    return (classify(tm) == "correct" and pd["body"] == 0 and sig["over"] == pd and
            ((tm["ty"] == INIT) or (tm["ty"] == MDA and pd["mem"][3:] == pd["dev"][3:] and pd["msig"]["by"] == pd["mem"]) or
             (tm["ty"] not in (MDA, INIT))))


def _terms(printed):
    """distinct delivered-term sequences of TLC histories (the model's predicted outcome is dropped)"""
    seen, out = set(), []
    for h in printed:
        steps = [{"act": s["act"], "a": s["a"]} for s in h]
        key = json.dumps(steps, sort_keys=True)
        if key not in seen:
            seen.add(key)
            out.append(steps)
    out.sort(key=lambda s: json.dumps(s, sort_keys=True))
    return out


def _model_check(ctx, quick):
    for creator in ("FALSE", "TRUE"):
        ctx.tlc_expect_ok("MetaEnvelope", "MC_MetaEnvelope.cfg", name="mc_creator_" + creator, workers=2,
                          consts={"Creator": creator})
    # index interplay: several envelopes per behaviour on a reduced type set
    ctx.tlc_expect_ok("MetaEnvelope", "MC_MetaEnvelope.cfg", name="mc_small_2deliveries", workers=4,
                      consts={"Creator": "TRUE", "TypeSel": SMALL, "MaxDeliver": "2"}, timeout=900)
    if not quick:
        for creator in ("FALSE", "TRUE"):
            ctx.tlc_expect_ok("MetaEnvelope", "MC_MetaEnvelope.cfg", name="mc_mut2_creator_" + creator, workers=4,
                              consts={"Creator": creator, "MaxMut": "2"}, timeout=1200)
    # the model is not vacuous: each weakened signer table breaks the properties at design level
    for (t, r) in (WEAK[:3] if quick else WEAK):
        res = ctx.tlc("MetaEnvelope", "MC_MetaEnvelope.cfg", name="mc_weak_%s_%s" % (t[:18], r), workers=2,
                      consts={"Creator": "TRUE", "WeakType": '"%s"' % t, "WeakRule": '"%s"' % r}, allow_violation=True, count=False)
        # (a wrong signer instead of a weaker one also rejects honest events: TLC may report that first)
        if res.violated not in ("Sound", "Complete"):
            raise vf.Infra("model vacuous: weakened table (%s -> %s) violates neither Sound nor Complete (got %s)" % (t, r, res.violated))
    ctx.extra["weak_tables_rejected_by_model"] = len(WEAK[:3] if quick else WEAK)


def _generate(ctx, quick):
    """returns list of (creator, steps)"""
    cases = []
    for creator in ("FALSE", "TRUE"):
        r = ctx.tlc("GenMetaEnvelope", "Gen_MetaEnvelope.cfg", name="gen_mut1_creator_" + creator, workers=1,
                    consts={"Creator": creator}, timeout=900, heap="4g")
        cases += [(creator, s) for s in _terms(r.printed.get("SCRIPT", []))]
    if not quick:
        for creator in ("FALSE", "TRUE"):
            r = ctx.tlc("GenMetaEnvelope", "Gen_MetaEnvelope.cfg", name="gen_mut2_creator_" + creator, workers=1,
                        consts={"Creator": creator, "MaxMut": "2"}, timeout=1500, heap="8g")
            two = [(creator, s) for s in _terms(r.printed.get("SCRIPT", []))]
            ctx.extra.setdefault("two_step_forgeries_enumerated", 0)
            ctx.extra["two_step_forgeries_enumerated"] += len(two)
            known = set(json.dumps(s, sort_keys=True) for _, s in cases)
            two = [c for c in two if json.dumps(c[1], sort_keys=True) not in known]
            if len(two) > 6000:
                two = ctx.rng.sample(two, 6000)
            cases += two
    # the same term may be reachable with and without the group key: keep one
    seen, out = set(), []
    for creator, s in cases:
        k = json.dumps(s, sort_keys=True)
        if k in seen:
            continue
        seen.add(k)
        out.append((creator, s))
    return out


def _stratified(ctx, cases, n):
    groups = {}
    for c in cases:
        tm = c[1][0]["a"]
        groups.setdefault((classify(tm),) + features(tm), []).append(c)
    keys = sorted(groups, key=lambda k: json.dumps(k))
    for k in keys:
        ctx.rng.shuffle(groups[k])
    out = []
    while len(out) < n and any(groups[k] for k in keys):
        for k in keys:
            if groups[k] and len(out) < n:
                out.append(groups[k].pop())
    return out


def _what(kind, line):
    tm = line.get("tm", {})
    obs = {k: v for k, v in line.items() if k not in ("tm", "pre", "post", "st")}
    if kind == "flips":
        return "single-bit flip of the %s of an honest %s event is still accepted (%s of %s flips, first bit %s)" % (
            line.get("field"), line.get("ty"), line.get("nacc"), line.get("n"), line.get("first"))
    return "metadata envelope [%s] of type %s (payload of %s, signed by %s over %s payload, box %s) handled against C03: observed %s" % (
        classify(tm) if tm else "?", tm.get("ty"), tm.get("pd", {}).get("shape"), tm.get("sig", {}).get("by"),
        "its own" if tm.get("sig", {}).get("over") == tm.get("pd") else "another", tm.get("box"), json.dumps(obs, sort_keys=True))


def run_c03(ctx, replay=None):
    quick = ctx.tier == "quick"
    ov = ctx.overlay({".": FILES})
    scripts = []
    mc_err, mc_thread = [], None
    if replay:
        rp = json.load(open(replay))
        scripts = [rp["script"]]
    else:
        # exhaustive model checking runs while the driver is built and executed
        def bg():
            try:
                _model_check(ctx, quick)
            except BaseException as e:  # re-raised in the main thread
                mc_err.append(e)
        mc_thread = threading.Thread(target=bg)
        mc_thread.start()
        cases = _generate(ctx, quick)
        if not cases:
            raise vf.Infra("no scripts generated")
        for creator, steps in cases:
            scripts.append({"id": len(scripts), "cfg": {"mode": "open", "creator": creator}, "steps": steps})
        for _ in range(1 if quick else 4):
            scripts.append({"id": len(scripts), "cfg": {"mode": "flips"}, "steps": []})
        nstore = 40 if quick else 160
        for store in ("mm", "acct"):
            pool = cases
            if store == "acct":
                # in an account group the group key IS the owner's member key: the two symbolic names
                # alias one key there, so terms signed with either are not classifiable by name
                pool = [c for c in cases if c[1][0]["a"]["sig"]["by"] not in ("grp", "memV")]
            pick = _stratified(ctx, pool, nstore)
            scripts.append({"id": len(scripts), "cfg": {"mode": "store", "store": store},
                            "steps": [c[1][0] for c in pick]})
    byid = {s["id"]: s for s in scripts}
    events, out = vf.run_driver(ctx, ".", DRV, ov, scripts, "metasig", timeout=1500,
                                env={"VERIF_WORLDS": 4 if quick else 8})
    if mc_thread:
        mc_thread.join()
        if mc_err:
            raise mc_err[0]
    blocks = vf.split_traces(events)
    got = set(b[0] for b in blocks)
    if not replay and not set(byid) <= got:
        raise vf.Infra("driver did not record every script (%d of %d)" % (len(got & set(byid)), len(byid)))

    # vacuity guards on the driver itself
    nflip = 0
    for bid, evs in blocks:
        for e in evs:
            if e["ev"] == "flips":
                nflip += e["n"]
                if e["baseok"] != e["resealok"]:
                    raise vf.Infra("flip sweep re-sealing path disagrees with the sealing helper on an honest event: %s" % e)
    # a write the store itself refused is an observation for the monitor (WritesOK), not a lost barrier
    refused = lambda e: bool(e.get("apperr") or e.get("senterr"))
    barrier_lost = [e for _, evs in blocks for e in evs if e["ev"] == "append" and not e["barrier"] and not refused(e)]

    # the monitor is stateless per line: one block per recorded call, so that one rejection does not hide the others
    mon_events, origin = [], {}
    n = 0
    for bid, evs in blocks:
        for i, e in enumerate(evs):
            if e["ev"] == "append" and not e["barrier"] and not refused(e):
                continue
            mon_events.append({"ev": "reset", "id": n})
            mon_events.append(e)
            origin[n] = (bid, i)
            n += 1
    acc, rejects = vf.validate_blocks(ctx, MON, mon_events, "mon", max_rejects=6, timeout=1500)
    for rj in rejects:
        bid, i = origin[rj["id"]]
        line = rj["events"][0]
        sc = byid.get(bid, {"id": bid, "cfg": {}, "steps": []})
        if sc["cfg"].get("mode") in ("open", "store") and sc["steps"]:
            k = line.get("i", i)
            rsc = {"id": sc["id"], "cfg": sc["cfg"], "steps": [sc["steps"][k]]}
        else:
            rsc = sc
        ctx.violation(_what(line["ev"], line), {"script": rsc, "rejected_line": line})
    if barrier_lost and not rejects:
        raise vf.Infra("store barrier event was not emitted within the time-out: %s" % {k: v for k, v in barrier_lost[0].items() if k not in ("pre", "post", "tm")})

    # full-spec conformance (drift only)
    if not rejects:
        flat = []
        for bid, evs in blocks:
            hdr = {"ev": "reset", "id": bid}
            flat.append(hdr)
            flat.extend(evs)
        tp = os.path.join(ctx.sub("conf"), "conf.ndjson")
        vf.write_ndjson(tp, flat)
        ok, info = ctx.validate_trace(CONF[0], CONF[1], tp, name="conf", strict=True, timeout=1500)
        if not ok:
            rec = {"trace": "metasig", "info": {k: info.get(k) for k in ("high", "line", "invariant")}}
            ctx.drift.append(rec)
            vf.log("model drift (full-spec conformance)", str(rec)[:400])
        else:
            ctx.extra["conformant_traces"] = len(blocks)

    # statistics (measured on what was replayed)
    delivered = [(s["cfg"].get("mode"), st["a"]) for s in scripts for st in s["steps"]]
    cls = {"correct": 0, "forged": 0, "open": 0}
    distinct = set()
    for mode, tm in delivered:
        cls[classify(tm)] += 1
        if not is_honest_base(tm):
            distinct.add(json.dumps(tm, sort_keys=True))
    ctx.evaluations = len(delivered) + nflip
    ctx.distinct_nontrivial = len(distinct)
    ctx.extra["delivered_by_class"] = cls
    ctx.extra["single_bit_flips_tried"] = nflip
    ctx.extra["store_appends"] = sum(1 for _, evs in blocks for e in evs if e["ev"] == "append")
    ctx.extra["event_types"] = len(set(tm["ty"] for _, tm in delivered if tm["ty"] != "Unknown"))
    ctx.extra["retyped_replays_accepted_by_code"] = sum(
        1 for _, evs in blocks for e in evs if e["ev"] == "open" and classify(e["tm"]) == "open" and e["ok"])
    ctx.extra["retyped_replays_total"] = sum(
        1 for _, evs in blocks for e in evs if e["ev"] == "open" and classify(e["tm"]) == "open")
    for _, evs in blocks:
        for e in evs:
            if e["ev"] == "open" and classify(e["tm"]) == "forged" and len(ctx.samples) < 2:
                ctx.samples.append({"term": e["tm"], "observed": {k: v for k, v in e.items() if k != "tm"}})
            if e["ev"] == "append" and classify(e["tm"]) == "forged" and sum(1 for s in ctx.samples if "store" in s) < 1:
                ctx.samples.append({"store": e["store"], "term": e["tm"], "observed": {k: v for k, v in e.items() if k not in ("tm", "pre", "post")}})
    ctx.assumptions += [
        "symbolic treatment of keys and signatures (a signature verifies iff made by that key over exactly those bytes); concrete keys are fresh per run, payload contents / bit positions / unknown type numbers come from VERIF_SEED",
        "an envelope whose payload was marshalled from another message type but is otherwise well signed is outside the statement (accepted either way); counted in retyped_replays_*",
        "store part: forged operations are appended through BaseStore.AddOperation on the owner's replica (same log identity as any member); emissions are collected up to a barrier event sent through SendAppMetadata",
        "TLC 1.8.0, Go toolchain, in-memory ipfs mock",
    ]
    return ctx.finish(level="model_checking",
                      rule="cases = every envelope TLC reaches from an honest event of each of the 21 types (adversary's own or observed) by one forging step of the catalogue (thorough: two steps, sampled), with and without the group key; plus every single-bit flip of payload/signature/nonce/box/frame of one honest event per type; non-trivial = distinct delivered term that is not an unmodified honest event",
                      exhaustive=False,
                      technique="TLA+ spec MetaEnvelope.tla model-checked by TLC (incl. weakened signer tables that must fail); TLC-enumerated forgeries replayed on openGroupEnvelope/openMetadataEntry and on real MetadataStores; recorded traces checked by TLC against the property monitor MonMetaEnvelope.tla (verdict) and the full spec (drift)")
