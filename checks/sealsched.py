"""C09, lock-level controlled schedules (complements the datastore-gated ones): pkg/secretstore's own files are
instrumented so that every Lock/RLock is a gate; model-independent blind schedules over 2-3 sealing tasks, with
and without a store re-created over a populated datastore."""
import json
import vf

PKG = "pkg/secretstore"


def run_part(ctx):
    quick = ctx.tier == "quick"
    rep, skel = ctx.instrument(["pkg/secretstore/secret_store_messages.go", "pkg/secretstore/secret_store.go", "pkg/secretstore/device_keystore_wrapper.go"])
    ov = ctx.overlay({PKG: ["vf_world_verif_test.go", "vf_sealsched_verif_test.go"]}, replace=rep)
    scripts = []
    nb = 250 if quick else 4000
    for (thr, msgs, warm, restart, redeliver) in [(2, 1, 0, False, False), (2, 1, 2, True, False), (3, 1, 1, True, False), (2, 2, 0, True, False),
                                                  (1, 2, 2, False, True), (2, 2, 1, True, True)]:
        threads = ["t%d" % (i + 1) for i in range(thr)]
        for seq in vf.blind_schedules(ctx.rng, threads, nb if not redeliver else max(20, nb // 5), 10 + 10 * thr * msgs):
            scripts.append({"id": len(scripts), "cfg": {"threads": thr, "msgs": msgs, "warm": warm, "restart": restart, "redeliver": redeliver},
                            "steps": [{"act": "step", "d": t} for t in seq]})
    binary = ctx.go_test_compile(PKG, ov, name="sealsched")
    events = ctx.run_sharded(binary, "^TestVerifSealSched$", PKG, scripts, "sealsched", shards=4)
    acc, rejects = vf.validate_blocks(ctx, ("MonSealSched", "Mon_SealSched.cfg"), events, "sealsched")
    ctx.evaluations += len(scripts)
    finals = [e for e in events if e.get("ev") == "sealfinal"]
    ctx.distinct_nontrivial += len(set(json.dumps(s["steps"]) for s in scripts))
    ctx.extra["lock_level_schedules"] = {"runs": len(scripts), "gates": sorted(set(o["label"] for ops in skel.values() if ops for o in ops))[:12]}
    byid = {s["id"]: s for s in scripts}
    for rj in rejects:
        sc = byid[rj["id"]]
        line = rj["info"].get("line", {})
        ctx.violation("concurrent seals break C09 under schedule %s: counters %s (expected %d..%d), stored %s, not finished %s" % (
            " ".join(x["d"] for x in sc["steps"]), line.get("counters"), line.get("first", 0) + 1,
            line.get("first", 0) + line.get("threads", 0) * line.get("msgs", 0), line.get("stored"), line.get("notdone")),
            {"script": sc, "rejected_line": line, "family": "sealsched"})
    if finals:
        ctx.add_samples([{"lock_level_schedule": [x["d"] for x in scripts[0]["steps"]], "observed": finals[0]}], limit=8)
