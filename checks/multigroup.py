"""C09 on several groups of one account (the property's "on one and several groups ... account, contact and
multi-member group types"): real parallel sends on the account group, contact groups (same device key) and a
multi-member group; a second device opens everything; MonMultiGroup.tla judges per group."""
import json
import vf

PKG = "pkg/secretstore"


def run_part(ctx):
    quick = ctx.tier == "quick"
    ov = ctx.overlay({PKG: ["vf_world_verif_test.go", "vf_multigroup_verif_test.go"]})
    scripts = []
    for rep in range(3 if quick else 20):
        for (tasks, msgs, contacts, multi) in [(4, 6, 2, True), (8, 5, 3, False), (2, 12, 1, True)]:
            scripts.append({"id": len(scripts), "cfg": {"tasks": tasks, "msgs": msgs, "contacts": contacts, "multi": multi}, "steps": []})
    events, _ = vf.run_driver(ctx, PKG, "^TestVerifMultiGroup$", ov, scripts, "multigroup", timeout=900)
    acc, rejects = vf.validate_blocks(ctx, ("MonMultiGroup", "Mon_MultiGroup.cfg"), events, "multigroup")
    n = sum(1 for e in events if e.get("ev") == "groupfinal")
    ctx.evaluations += n
    ctx.distinct_nontrivial += len(scripts)
    ctx.extra["several_groups"] = {"runs": len(scripts), "group_observations": n}
    for rj in rejects:
        line = rj["info"].get("line", {})
        ctx.violation("concurrent sends on several groups of one account break C09: group %s: %s sealed, counters %s, %s opened at the second device, %s faithful, errs %s" % (
            line.get("g"), line.get("n"), line.get("counters"), line.get("opened"), line.get("faithful"), line.get("errs")),
            {"script": scripts[rj["id"]], "rejected_line": line, "family": "multigroup"})
