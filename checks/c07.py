import grouplog_check


def run(ctx, replay=None):
    return grouplog_check.run_c07(ctx, replay)
