"""C20: specs/ExportRestore.tla bound to the real export / restore path (service + RestoreAccountExport)."""
import json, os, re, subprocess, time
from concurrent.futures import ThreadPoolExecutor
import vf

PKG = "."
FILES = ["vf_export_verif_test.go", "vf_exportforeign_verif_test.go", "vf_foreign_verif_test.go"]
DRV = "^TestVerifExportRestore$"
MON = ("MonExportRestore", "Mon_ExportRestore.cfg")

ALLOPS = '{"en", "dis", "rs", "enq", "sent", "recv", "disc", "acc", "blk", "unb", "join", "leave", "mmcreate", "msg", "meta"}'
ALLKINDS = '{"none", "used", "flip", "drop", "dup", "move", "trunc"}'
MUTKINDS = '{"none", "flip", "drop", "dup", "move", "trunc"}'


# ------------------------------------------------------------------ design level
def design_level(ctx):
    """TLC on the design: the code's choices satisfy every invariant; the pre-fix choice (second heads file -> nil
    dereference) breaks NoCrash; the stricter key import is allowed as well"""
    quick = ctx.tier == "quick"
    out = {}
    base = {"MaxAcct": "1" if quick else "2", "MaxSend": "1"}
    variants = [("skip", "none", True)]
    if not quick:
        variants += [("crash", "none", False), ("skip", "pair", True)]
    for dup, key, must in variants:
        r = ctx.tlc("ExportRestore", "MC_ExportRestore.cfg", name="mc_%s_%s" % (dup, key), allow_violation=True, workers=2 if quick else 4, timeout=1500,
                    consts=dict(base, DupHeads='"%s"' % dup, KeyCheck='"%s"' % key))
        out["DupHeads=%s KeyCheck=%s" % (dup, key)] = r.violated or "ok"
        if must and not r.ok:
            raise vf.Infra("ExportRestore.tla (choices of the code) must satisfy its invariants: %s" % r.violated)
        if not must and r.ok:
            raise vf.Infra("ExportRestore.tla: the pre-fix choice DupHeads=crash is expected to break NoCrash")
    ctx.extra["design_level"] = out


# ------------------------------------------------------------------ generation
def gen(ctx):
    quick = ctx.tier == "quick"
    # (Rich, Ops, Kinds, MaxOps, RestoresPer, MaxExports, walks quick, walks thorough)
    plans = [
        (False, ALLOPS, ALLKINDS, 4, 4, 2, 10, 60),
        (True, '{"msg", "meta", "blk", "unb", "rs", "en"}', MUTKINDS, 4, 5, 2, 14, 110),
        (True, '{"msg", "meta"}', '{"flip", "drop", "dup", "move"}', 3, 6, 1, 6, 50),
    ]
    def sim(k):
        rich, ops, kinds, mo, rp, mx, wq, wt = plans[k]
        walks = wq if quick else wt
        consts = {"Rich": "TRUE" if rich else "FALSE", "Ops": ops, "Kinds": kinds, "MaxOps": str(mo), "RestoresPer": str(rp),
                  "MaxExports": str(mx)}
        r = ctx.tlc("GenExportRestore", "Gen_ExportRestore.cfg", name="sim_%d" % k, workers=1, simulate="num=%d" % walks,
                    depth=60, consts=consts, timeout=1500, heap="6g")
        return r.printed.get("SCRIPT", []), walks

    scripts = []
    with ThreadPoolExecutor(max_workers=3) as ex:
        sims = list(ex.map(sim, range(len(plans))))
    for k, (hs, walks) in enumerate(sims):
        scripts += vf.scripts_from_tlc(hs, cfg={"plan": k, "rich": plans[k][0]}, start_id=len(scripts), limit=walks, rng=ctx.rng)
    # model-independent histories with a SECOND WRITER: another member's device appends to the multi-member group and
    # its heads reach the exporting node, so the exported logs have several heads (the model's histories are
    # single-writer: one head per log)
    A0 = {"tgt": {"t": "-", "n": "-", "g": "-", "s": "-", "k": 0, "kn": 0}, "at": {"t": "-", "n": "-", "g": "-", "s": "-", "k": 0, "kn": 0}, "kn": 0, "cls": ""}

    def st(act, s="", d="", x=0):
        return {"act": act, "s": s, "x": x, "y": 0, "d": d, "a": json.loads(json.dumps(A0)), "res": {}}
    multi = [
        [st("op", "mmcreate"), st("op", "msg", "mm", 1), st("op", "foreign", "mm", 1), st("export"), st("restore", "none")],
        [st("op", "mmcreate"), st("op", "foreign", "mm", 1), st("op", "foreign", "mm", 2), st("export"), st("restore", "none")],
        [st("op", "mmcreate"), st("op", "meta", "mm", 1), st("op", "msg", "mm", 2), st("op", "foreign", "mm", 1), st("export"), st("restore", "none"),
         st("op", "msg", "mm", 3), st("op", "foreign", "mm", 2), st("export"), st("restore", "none")],
    ]
    for h in (multi if quick else multi * 3):
        scripts.append({"id": 0, "cfg": {"plan": "blind-multihead", "rich": True}, "steps": json.loads(json.dumps(h))})
    for i, s in enumerate(scripts):
        s["id"] = i
    if not scripts:
        raise vf.Infra("no scripts generated")
    return scripts


def restores(s):
    return [x for x in s["steps"] if x["act"] == "restore"]


def interesting(s):
    """non-trivial: an export of at least two groups with messages or payloads, an unmutated and >= 2 mutated restores"""
    kinds = [x["s"] for x in restores(s)]
    sends = sum(1 for x in s["steps"] if x["act"] == "op" and x["s"] in ("msg", "meta") and x["res"].get("ok"))
    multi = any(x["act"] == "op" and x["s"] in ("mmcreate", "acc") and x["res"].get("ok") for x in s["steps"])
    return multi and sends >= 1 and len([k for k in kinds if k not in ("none", "used")]) >= 2


# ------------------------------------------------------------------ driver runs that survive a dying process
def sig_of(step):
    return "%s:%s" % (step.get("s"), ((step.get("a") or {}).get("tgt") or {}).get("t", "-"))


def first_panic(out):
    m = re.search(r"^(panic: .*|fatal error: .*)$", out, re.M)
    where = re.findall(r"^\s+(/\S+\.go:\d+)", out, re.M)
    site = next((w for w in where if w.startswith(vf.REPO.rstrip("/") + "/") and "vf_" not in w), where[0] if where else "")
    return ((m.group(1) if m else "process died") + (" at " + site if site else ""))[:300]


class Runner:
    def __init__(self, ctx, binary):
        self.ctx, self.binary = ctx, binary
        self.dir = ctx.sub("drv_export")
        self.k = 0
        self.skip = set()
        self.crashes = []

    def start(self, scripts, workers):
        self.k += 1
        d = os.path.join(self.dir, "p%d" % self.k)
        os.makedirs(os.path.join(d, "progress"))
        sp, tp = os.path.join(d, "scripts.ndjson"), os.path.join(d, "trace.ndjson")
        vf.write_ndjson(sp, scripts)
        env = self.ctx.go_env({"VERIF_SCRIPTS": sp, "VERIF_TRACE_OUT": tp, "VERIF_WORKERS": str(workers),
                               "VERIF_PROGRESS_DIR": os.path.join(d, "progress"), "VERIF_SKIP": ",".join(sorted(self.skip))})
        lf = open(os.path.join(d, "out.txt"), "w")
        p = subprocess.Popen([self.binary, "-test.run", DRV, "-test.count=1", "-test.timeout", "1700s", "-test.v"],
                             cwd=vf.REPO, env=env, stdout=lf, stderr=subprocess.STDOUT)
        return {"p": p, "lf": lf, "d": d, "tp": tp, "scripts": scripts, "t0": time.time()}

    def finish(self, job):
        """-> (complete blocks {id: events}, in-progress [(script, partial)], unstarted scripts, crashed?)"""
        job["lf"].close()
        out = open(job["lf"].name).read()
        if "VERIF-INFRA" in out:
            raise vf.Infra("driver infrastructure error:\n" + "\n".join([l for l in out.splitlines() if "VERIF-INFRA" in l][:5]))
        byid = {s["id"]: s for s in job["scripts"]}
        blocks = {}
        if os.path.exists(job["tp"]):
            evs = []
            for line in open(job["tp"]):
                try:
                    evs.append(json.loads(line))
                except ValueError:
                    break           # the process died while writing
            for bid, b in vf.split_traces(evs):
                if bid in byid and len(b) == len(byid[bid]["steps"]):
                    blocks[bid] = b
        if "VERIF-DONE" in out:
            if set(blocks) != set(byid):
                raise vf.Infra("driver did not record every script")
            return blocks, [], [], None
        if "panic:" not in out and "fatal error:" not in out and "SIGSEGV" not in out:
            raise vf.Infra("driver failed without finishing (rc=%s):\n%s" % (job["p"].returncode, "\n".join(out.splitlines()[-30:])))
        inprog = []
        pd = os.path.join(job["d"], "progress")
        for f in sorted(os.listdir(pd)):
            if f.endswith(".json"):
                try:
                    pr = json.load(open(os.path.join(pd, f)))
                except ValueError:
                    continue
                if pr.get("id") in byid and pr["id"] not in blocks:
                    inprog.append((byid[pr["id"]], pr))
        ids = set(blocks) | {s["id"] for s, _ in inprog}
        rest = [s for s in job["scripts"] if s["id"] not in ids]
        return blocks, inprog, rest, first_panic(out)

    def wait(self, jobs, timeout=1800):
        res = []
        for j in jobs:
            try:
                j["p"].wait(timeout=max(1, timeout - (time.time() - j["t0"])))
            except subprocess.TimeoutExpired:
                j["p"].kill()
                raise vf.Infra("driver process timed out")
            res.append(self.finish(j))
        return res

    def run(self, scripts, procs, workers):
        """all scripts -> {id: events}; a restore that kills the process is re-run alone to find out which one it was,
        recorded with out="crash", and its class of mutation is left out of the rest of the run"""
        blocks = {}
        todo = list(scripts)
        t0 = time.time()
        for rnd in range(12):
            if not todo:
                break
            n = max(1, min(procs, (len(todo) + 3) // 4))
            parts = [todo[i::n] for i in range(n)]
            results = self.wait([self.start(p, workers) for p in parts if p])
            todo, suspects = [], []
            for b, inprog, rest, crashed in results:
                blocks.update(b)
                todo += rest
                suspects += [s for s, _ in inprog]
            if suspects:
                # one process per suspect, one worker: whatever dies now died in this script
                solo = self.wait([self.start([s], 1) for s in suspects])
                for s, (b, inprog, rest, crashed) in zip(suspects, solo):
                    if b:
                        blocks.update(b)
                        continue
                    if not inprog:
                        raise vf.Infra("driver died outside a restore (script %s): %s" % (s["id"], crashed))
                    pr = inprog[0][1]
                    begin = dict(pr["begin"], out="crash", err=crashed)
                    done = [e for e in pr["done"] if e.get("ev") != "reset"]
                    step = s["steps"][len(done)]
                    tail = [{"ev": x["act"], "skip": True, "why": "after-crash"} for x in s["steps"][len(done) + 1:]]
                    blocks[s["id"]] = done + [begin] + tail
                    self.skip.add(sig_of(step))
                    self.crashes.append({"script": s["id"], "step": len(done), "sig": sig_of(step), "panic": crashed})
                    vf.log("restore kills the process: script %s step %d (%s): %s" % (s["id"], len(done), sig_of(step), crashed))
        if todo:
            raise vf.Infra("driver keeps dying: %d scripts left after 12 rounds" % len(todo))
        vf.log("driver export: %d scripts in %.1fs (%d process starts)" % (len(scripts), time.time() - t0, self.k))
        return blocks


# ------------------------------------------------------------------ conformance with the model's predictions (drift only)
def conformance(ctx, scripts, blocks):
    """every op / restore step: the model's prediction against the observed outcome (never a verdict)"""
    cmp_, agree, diffs = 0, 0, {}
    for s in scripts:
        exp = None
        if str(s["cfg"].get("plan", "")).startswith("blind"):
            continue            # model-independent histories carry no prediction
        for st, ev in zip(s["steps"], blocks[s["id"]]):
            if ev.get("ev") == "export" and not ev.get("skip"):
                exp = ev
            if ev.get("skip"):
                continue
            if st["act"] == "op" and "ok" in ev:
                want, got = st["res"].get("ok"), ev["ok"]
            elif st["act"] == "restore" and "out" in ev:
                got = ev["out"]
                if got == "ok":
                    got = "ok/" + ("same" if exp and ev.get("keys") == exp.get("keys") else "other")
                want = st["res"].get("out") + (("/" + st["res"].get("keys", "?")) if st["res"].get("out") == "ok" else "")
            else:
                continue
            cmp_ += 1
            if want == got:
                agree += 1
            else:
                k = "%s %s: model %s, code %s" % (st["act"], sig_of(st) if st["act"] == "restore" else st["s"], want, got)
                diffs[k] = diffs.get(k, 0) + 1
    ctx.extra["conformance"] = {"steps_compared": cmp_, "agree": agree,
                                "disagreements": dict(sorted(diffs.items(), key=lambda kv: -kv[1])[:12])}
    for k, v in list(diffs.items())[:20]:
        ctx.drift.append({"trace": "export", "info": {"what": k, "count": v}})


# ------------------------------------------------------------------ verdict plumbing
def clause_of(line, exp):
    """which clause of the monitor the rejected line breaks (wording of the report only; the verdict is the monitor's)"""
    if line.get("ev") == "export":
        return "export-incomplete", "the export does not hold both keys and, for every open group, every entry under its identifier and the current heads"
    out = line.get("out")
    fed = line.get("fed", [])
    bad_entry = any(f["t"] == "entry" and not f.get("match") for f in fed)
    kc = {n: sum(1 for f in fed if f["t"] == "key" and f.get("n") == n) for n in ("account", "proof")}
    strict = bad_entry or kc["account"] != 1 or kc["proof"] != 1 or line.get("used")
    if out in ("panic", "crash"):
        return "crash", "the restore %s (%s)" % ("killed the process" if out == "crash" else "panicked", line.get("err"))
    if strict and out != "err":
        why = "entry bytes that do not match their identifier" if bad_entry else "a target store that already holds an account" if line.get("used") else "a missing or duplicated key file"
        return "not-rejected", "an archive with %s was not rejected: outcome %s" % (why, out)
    if exp is not None and fed == exp.get("files") and not line.get("used") and "noend" not in line and out != "ok":
        return "unmutated-fails", "the unmutated archive does not restore: outcome %s %s" % (out, line.get("err", ""))
    key_damaged = any(f["t"] == "key" and not f.get("same") for f in fed)
    if out == "ok" and key_damaged:
        return "other", "rejected line"
    if out == "ok" and exp is not None and line.get("keys") != exp.get("keys"):
        return "keys-differ", "the restore reports success but the node holds other account keys: %s instead of %s" % (line.get("keys"), exp.get("keys"))
    if out == "ok" and exp is not None:
        diff = []
        for g in exp.get("open", []):
            rg, sg = (line.get("g") or {}).get(g, {}), exp["src"][g]
            parts = [p for p in ("meta", "msg", "st") if rg.get(p) != sg.get(p)]
            if rg.get("open") != "ok":
                parts = ["open=" + str(rg.get("open"))]
            if parts:
                diff.append("%s(%s)" % (g, ",".join(parts)))
        return "state-differs", "the restore reports success but groups whose files arrived undamaged differ from the source: %s" % " ".join(diff)
    return "other", "rejected line"


def describe(sc, upto):
    parts = []
    for x in sc["steps"][: upto + 1]:
        if x["act"] == "op":
            parts.append("%s%s%s" % (x["s"], x.get("d") or "", x.get("x") or ""))
        elif x["act"] == "export":
            parts.append("EXPORT")
        else:
            t = (x.get("a") or {}).get("tgt") or {}
            tgt = {"key": t.get("n"), "heads": "heads/%s" % t.get("g"), "entry": "entry %s/%s #%s of %s" % (t.get("g"), t.get("s"), t.get("k"), t.get("kn"))}.get(t.get("t"), "")
            parts.append("restore[%s %s%s]" % (x["s"], tgt, (" " + x["a"]["cls"]) if (x.get("a") or {}).get("cls") else ""))
    return " ; ".join(parts)


def run(ctx, replay=None):
    ov = ctx.overlay({PKG: FILES})
    # the test binary of the root package takes minutes to link: build it while TLC works
    with ThreadPoolExecutor(max_workers=3) as ex:
        fb = ex.submit(ctx.go_test_compile, PKG, ov, "export")
        if replay:
            scripts = [json.load(open(replay))["script"]]
        else:
            fd = ex.submit(design_level, ctx)
            scripts = gen(ctx)
            fd.result()
        binary = fb.result()
    quick = ctx.tier == "quick"
    runner = Runner(ctx, binary)
    blocks = runner.run(scripts, procs=4 if quick else 5, workers=2 if quick else 3)
    byid = {s["id"]: s for s in scripts}
    events = []
    for s in scripts:
        events.append({"ev": "reset", "id": s["id"]})
        events.extend(blocks[s["id"]])
    acc, rejects = vf.validate_blocks(ctx, MON, events, "export", max_rejects=6, timeout=1500)
    conformance(ctx, scripts, blocks)
    ctx.evaluations += sum(1 for s in scripts for e in blocks[s["id"]] if e.get("ev") in ("restore", "export") and not e.get("skip"))
    ctx.distinct_nontrivial += sum(1 for s in scripts if interesting(s))
    outs = {}
    for s in scripts:
        for st, e in zip(s["steps"], blocks[s["id"]]):
            if e.get("ev") == "restore" and not e.get("skip"):
                k = "%s -> %s" % (sig_of(st), e.get("out"))
                outs[k] = outs.get(k, 0) + 1
    ctx.extra["observed_outcomes"] = dict(sorted(outs.items()))
    ctx.extra["scripts"] = len(scripts)
    ctx.extra["process_deaths"] = runner.crashes
    ctx.extra["mutation_classes_left_out_after_a_confirmed_crash"] = sorted(runner.skip)
    for rj in rejects:
        sc = byid[rj["id"]]
        line = rj["info"].get("line", {})
        exp = None
        for e in rj["events"][: rj["at"]]:
            if e.get("ev") == "export":
                exp = e
        clause, text = clause_of(line, exp)
        st = sc["steps"][rj["at"]] if rj["at"] < len(sc["steps"]) else {}
        if st.get("act") == "restore":
            key = "%s:%s" % (clause, sig_of(st)) + ((":" + line["cls"]) if line.get("cls") else "")
        else:
            key = clause + ":export"
        what = "C20 broken: %s (history: %s)" % (text, describe(sc, rj["at"]))
        ctx.classify(key, what, {"script": sc, "observed": rj["events"], "rejected_line": line, "step": rj["at"]})
    for s in scripts:
        if interesting(s):
            b = blocks[s["id"]]
            ctx.add_samples([{"script": describe(s, len(s["steps"])),
                              "outcomes": [e.get("out") for e in b if e.get("ev") == "restore"]}], limit=3)
    ctx.assumptions += [
        "source = one real service (NewTestingProtocol, in-memory) per history; every log is written by that one device (single head per log)",
        "restore target = fresh in-memory IPFS node + secret store + WeshOrbitDB on a private mocknet without peers; groups are then opened with WeshOrbitDB.OpenGroup (LocalOnly) and read through the store getters; no service is started on the restored node",
        "bounded waits: %s ms for restores that must give a definite answer, %s ms for the others (a longer hang is recorded as timeout = refusal)" % (
            os.environ.get("VERIF_RESTORE_LONG_MS", "20000"), os.environ.get("VERIF_RESTORE_WAIT_MS", "4000")),
        "byte flips: one bit in an entry file (anywhere), in a named field of a heads file (frame, pk, signing key, head CID, link key) or of a key file (protobuf frame, seed half, public half)",
        "the export is retried until the source logs did not change while it ran (the export is not atomic with respect to concurrent writes; not part of C20)",
    ]
    return ctx.finish(level="model_checking",
                      rule="seeded -simulate walks of GenExportRestore (history, export at a TLC-chosen point, TLC-chosen file-level mutations, optionally more history and a second export) replayed on a real service and real restores; evaluations = exports + restores judged by the monitor; non-trivial script = contact or multi-member group open, at least one message/payload, at least two mutated restores",
                      exhaustive=False,
                      technique="TLA+ spec ExportRestore.tla model-checked by TLC (archive, every single file-level mutation, handler rules; the code's Impl choices and the pre-fix one); TLC-generated behaviours replayed on the real service/export stream and RestoreAccountExport; recorded traces checked by TLC against the property monitor MonExportRestore.tla (verdict); model predictions compared step by step (drift)")
