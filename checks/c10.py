import ratchetstore


def run(ctx, replay=None):
    return ratchetstore.run_c10(ctx, replay)
