import conn_check


def run(ctx, replay=None):
    return conn_check.run(ctx, replay)
