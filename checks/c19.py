import json

import serviceapi


def run(ctx, replay=None):
    rp = json.load(open(replay)) if replay else None
    if rp and rp.get("family") == "group_lifecycle":
        import grouplife
        grouplife.run_part(ctx, replay_obj=rp)
        return ctx.finish(level="model_checking", rule="replay: group lifecycle (activate / deactivate / close, two clients)", exhaustive=False,
                          technique="replay of one recorded lifecycle script on a real in-process service; TLC trace validation against MonGroupLife")
    if not replay and ctx.tier != "quick":
        # thorough tier, beyond the listed property: the service's group lifecycle (GroupLife.tla: activate /
        # deactivate / sends / listings / close by two concurrent clients) bound to the real service by trace
        # validation - drift only, except a recovered panic or a request that kills the process, which is C19's
        # statement and is reported as a violation
        finish = ctx.finish

        def finish_with_group_lifecycle(**kw):
            ctx.finish = finish
            import grouplife
            import vf
            try:
                grouplife.run_part(ctx)
            except vf.Infra as e:
                ctx.drift.append({"trace": "group_lifecycle", "info": "part skipped: %s" % str(e)[:300]})
            kw["technique"] = kw.get("technique", "") + "; thorough: GroupLife.tla (group lifecycle under two concurrent clients) model-checked and bound to the real service by TLC trace validation (drift only; panics are violations)"
            return finish(**kw)
        ctx.finish = finish_with_group_lifecycle
    return serviceapi.run(ctx, replay)
