import serviceapi


def run(ctx, replay=None):
    return serviceapi.run(ctx, replay)
