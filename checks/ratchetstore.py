"""C10 / C09: specs/RatchetStore.tla bound to pkg/secretstore through the recording / crashing
datastore of harness/pkg/secretstore/vf_crashds_verif_test.go.

C10: TLC model-checks the datastore-level refinement with a crash between any two mutations
     (and shows at design level that the two questionable implementation choices break it),
     generates sequential workloads; the Go driver runs each workload once per crash index;
     MonRatchetStore.tla (verdict) and TraceRatchetStore.tla (conformance) validate the recordings.
C09: TLC model-checks SealEnvelope split at every chain-key read/write with the mutex explicit
     (and finds the duplicate counter without it); real-parallel runs and controlled interleavings
     (schedules TLC generates from the lock-free variant) are recorded and validated the same way.
"""
import json, os, random
from concurrent.futures import ThreadPoolExecutor
import vf

PKG = "pkg/secretstore"
FILES = ["vf_world_verif_test.go", "vf_crashds_verif_test.go", "vf_crash_verif_test.go"]
FILES09 = ["vf_world_verif_test.go", "vf_crashds_verif_test.go", "vf_race_verif_test.go"]
MON = ("MonRatchetStore", "Mon_RatchetStore.cfg")
CONF = ("TraceRatchetStore", "Trace_RatchetStore.cfg")
GTYPES = ["multi", "contact", "account"]


def _par(fns, n=3):
    """run independent TLC jobs side by side (each with few workers); first exception wins"""
    with ThreadPoolExecutor(max_workers=n) as ex:
        futs = [ex.submit(f) for f in fns]
        return [f.result() for f in futs]


def _tla_bool(b):
    return "TRUE" if b else "FALSE"


def _expect_violation(ctx, name, consts, allowed, cfg="MC_RatchetStore.cfg"):
    """design-level demonstration: with the other value of an implementation choice TLC must find the break"""
    r = ctx.tlc("RatchetStore", cfg, name=name, consts=consts, allow_violation=True, workers=2, timeout=600)
    if r.violated not in allowed:
        raise vf.Infra("model %s: expected a violation of %s, got %s" % (name, allowed, r.violated))
    ctx.extra.setdefault("design_level", []).append({"config": consts, "violates": r.violated})
    return r


# ------------------------------------------------------------------------------------------ C10
def _c10_model(ctx):
    quick = ctx.tier == "quick"
    ops = "4" if quick else "6"
    jobs = [lambda: ctx.tlc_expect_ok("RatchetStore", "MC_RatchetStore.cfg", name="mc_crash_batch", workers=2, consts={"MaxOps": ops}, timeout=1500),
            lambda: ctx.tlc_expect_ok("RatchetStore", "MC_RatchetStore.cfg", name="mc_crash_nobatch", workers=2,
                                      consts={"MaxOps": ops, "Batching": "FALSE"}, timeout=1500),
            lambda: ctx.tlc_expect_ok("RatchetStore", "MC_RatchetStore.cfg", name="mc_crash_join", workers=2,
                                      consts={"MaxOps": "3" if quick else "4", "InitJoined": "FALSE"}, timeout=1500),
            lambda: _expect_violation(ctx, "mc_neg_cidfirst", {"MaxOps": "4", "CidFirst": "FALSE"}, ("C10_Monotone", "C10_OpenableStay", "C10_OpenedStay")),
            lambda: _expect_violation(ctx, "mc_neg_early", {"MaxOps": "4", "EarlyReturn": "TRUE"}, ("NoReuse",))]
    if not quick:
        jobs += [lambda: ctx.tlc_expect_ok("RatchetStore", "MC_RatchetStore.cfg", name="mc_crash_2senders", workers=2,
                                           consts={"MaxOps": "5", "Dev": '{"d1","d2","R"}', "Senders": '{"d1","d2"}', "W": "1", "MaxSent": "1"}, timeout=2400),
                 lambda: ctx.tlc_expect_ok("RatchetStore", "MC_RatchetStore.cfg", name="mc_crash_2crashes", workers=2,
                                           consts={"MaxOps": "4", "MaxCrash": "2"}, timeout=2400)]
    _par(jobs, 2)


def _boring(h):
    """workloads that add nothing: more than one refused open, or no call that mutates"""
    refused = sum(1 for s in h if s["act"] == "open" and not s["res"]["ok"])
    return refused > 1 or not any(s["act"] in ("seal", "register") for s in h)


def _c10_workloads(ctx):
    quick = ctx.tier == "quick"
    out = []
    plans = [(4, '{"d1","R"}', '{"d1"}', 2, 110)] if quick else \
            [(4, '{"d1","R"}', '{"d1"}', 2, None), (5, '{"d1","R"}', '{"d1"}', 2, 150), (6, '{"d1","R"}', '{"d1"}', 3, 100),
             (4, '{"d1","d2","R"}', '{"d1","d2"}', 1, 80)]
    for (ln, dev, snd, ms, limit) in plans:
        r = ctx.tlc("GenRatchetStore", "Gen_RatchetStore.cfg", name="gen_L%d_%d" % (ln, len(snd)), workers=1 if quick else 4,
                    consts={"MaxLen": str(ln), "MaxOps": str(ln), "Dev": dev, "Senders": snd, "MaxSent": str(ms)}, timeout=1500, heap="6g")
        hs = [h for h in r.printed.get("SCRIPT", []) if not _boring(h)]
        sc = vf.scripts_from_tlc(hs, limit=limit, rng=ctx.rng)
        out += [s["steps"] for s in sc]
    # longer random walks, two senders
    for (ln, num) in ([(6, 60)] if quick else [(6, 70), (8, 50)]):
        r = ctx.tlc("GenRatchetStore", "Gen_RatchetStore.cfg", name="sim_L%d" % ln, workers=1, simulate="num=%d" % num, depth=ln * 8 + 10,
                    consts={"MaxLen": str(ln), "MaxOps": str(ln), "Dev": '{"d1","d2","R"}', "Senders": '{"d1","d2"}', "MaxSent": "3"},
                    timeout=1500, heap="6g")
        hs = [h for h in r.printed.get("SCRIPT", []) if len(h) == ln and not _boring(h)]
        out += [s["steps"] for s in vf.scripts_from_tlc(hs)]
    seen, uniq = set(), []
    for st in out:
        k = json.dumps(st, sort_keys=True)
        if k not in seen:
            seen.add(k)
            uniq.append(st)
    return uniq


def _c10_scripts(ctx, workloads):
    """assign datastore variant, window sizes and group type; a few workloads also get the set-up crash points"""
    quick = ctx.tier == "quick"
    scripts = []
    for i, steps in enumerate(workloads):
        variants = [(2, 1, True)]
        if not quick or i % 3 == 0:
            variants.append((2, 1, False))
        if not quick or i % 3 == 1:
            variants.append((1, 2, True))
        if not quick and i % 4 == 0:
            variants.append((3, 2, False))
        for (w, n, b) in variants:
            sid = len(scripts)
            scripts.append({"id": sid, "cfg": {"W": w, "N": n, "batching": b, "gtype": GTYPES[sid % 3],
                                               "prelude_crash": sid < (9 if quick else 60)}, "steps": steps})
    return scripts


def _sid(block_id):
    return int(str(block_id).split("/")[0])


def _validate_blocks2(ctx, events, name, conf_consts, max_rejects=3):
    blocks = _split_keep_reset(events)
    d = ctx.sub("val_" + name)
    cur, rejects, rounds = list(blocks), [], 0
    while cur:
        rounds += 1
        flat, index = [], []
        for bid, evs in cur:
            index.append((len(flat), bid))
            flat.extend(evs)
        tp = os.path.join(d, "t%d.ndjson" % rounds)
        vf.write_ndjson(tp, flat)
        ok, info = ctx.validate_trace(MON[0], MON[1], tp, name="%s_mon%d" % (name, rounds), timeout=1800)
        if ok:
            break
        if "high" not in info:
            raise vf.Infra("monitor broke on observed trace: %s" % info)
        pos = info["high"]
        bi = max(i for i, (start, _) in enumerate(index) if start <= pos)
        bid, evs = cur[bi]
        rejects.append({"id": bid, "info": info, "events": evs, "at": pos - index[bi][0]})
        cur = cur[:bi] + cur[bi + 1:]
        if len(rejects) >= max_rejects:
            cur = []
            break
    ctx.traces_validated += len(cur)
    if conf_consts is not None and cur:
        left, nd = list(cur), 0
        while left and nd < 3:
            flat, index = [], []
            for bid, evs in left:
                index.append((len(flat), bid))
                flat.extend(evs)
            tp = os.path.join(d, "strict%d.ndjson" % nd)
            vf.write_ndjson(tp, flat)
            ok, info = ctx.validate_trace(CONF[0], CONF[1], tp, name="%s_conf%d" % (name, nd), consts=conf_consts, strict=True, timeout=1800)
            if ok:
                break
            nd += 1
            rec = {"trace": name, "info": {k: info.get(k) for k in ("high", "line", "invariant")}}
            if "high" in info:
                bi = max(i for i, (start, _) in enumerate(index) if start <= info["high"])
                rec["block"] = left[bi][0]
                left = left[:bi] + left[bi + 1:]
            ctx.drift.append(rec)
            vf.log("model drift (full-spec conformance) in", name, str(rec)[:400])
            if "high" not in info:
                break
        ctx.extra["conformant_traces"] = ctx.extra.get("conformant_traces", 0) + (len(left) if nd < 3 else 0)
    return len(cur), rejects


def _selftest(ctx, mon, name, block, corrupt):
    """binding is demonstrated, not assumed: the monitor must accept the recorded block and reject a corrupted copy"""
    d = ctx.sub("selftest_" + name)
    good, bad = os.path.join(d, "good.ndjson"), os.path.join(d, "bad.ndjson")
    vf.write_ndjson(good, block)
    cb = corrupt(json.loads(json.dumps(block)))
    if cb is None:
        return
    vf.write_ndjson(bad, cb)
    ok1, _ = ctx.validate_trace(mon[0], mon[1], good, name="selftest_%s_good" % name, timeout=600)
    ok2, _ = ctx.validate_trace(mon[0], mon[1], bad, name="selftest_%s_bad" % name, timeout=600)
    if not ok1:
        return  # the recorded block itself is rejected: the main validation reports it
    if ok2:
        raise vf.Infra("monitor self-test failed (%s): the corrupted copy of an accepted block was accepted" % name)
    ctx.extra.setdefault("selftests", []).append(name)


def _split_keep_reset(events):
    out, cur, cid = [], None, None
    for e in events:
        if e.get("ev") == "reset":
            if cur is not None:
                out.append((cid, cur))
            cur, cid = [e], e.get("id")
        else:
            if cur is None:
                raise vf.Infra("trace does not start with a reset record")
            cur.append(e)
    if cur is not None:
        out.append((cid, cur))
    return out


def _group_events(scripts, events):
    byid = {s["id"]: s for s in scripts}
    groups = {}
    for bid, evs in _split_keep_reset(events):
        sc = byid[_sid(bid)]
        key = (sc["cfg"]["W"], sc["cfg"]["N"], bool(sc["cfg"].get("batching", True)))
        groups.setdefault(key, []).extend(evs)
    return groups


def run_c10(ctx, replay=None):
    ov = ctx.overlay({PKG: FILES})
    if replay:
        rp = json.load(open(replay))
        scripts = [rp["script"]]
    else:
        _c10_model(ctx)
        scripts = _c10_scripts(ctx, _c10_workloads(ctx))
    if not scripts:
        raise vf.Infra("no workloads generated")
    events, out = vf.run_driver(ctx, PKG, "^TestVerifCrash$", ov, scripts, "crash", timeout=2400)
    byid = {s["id"]: s for s in scripts}
    blocks = _split_keep_reset(events)
    if {_sid(b) for b, _ in blocks} != set(byid):
        raise vf.Infra("driver did not record every workload")
    if not replay:
        def corrupt10(b):
            for e in b:
                if e.get("ev") == "probes" and e.get("phase") == "post":
                    e["open"] = []
            return b
        cand = [evs for _, evs in blocks if any(e.get("ev") == "probes" and e.get("phase") == "pre" and e.get("open") for e in evs)]
        if cand:
            _selftest(ctx, MON, "c10_lost_key", cand[0], corrupt10)
    nblocks = len(blocks)
    torn = sum(1 for _, evs in blocks if any(e.get("crashed") and e.get("muts") for e in evs))
    crashed = sum(1 for _, evs in blocks if any(e.get("ev") == "crash" for e in evs))
    def one(key, evs):
        (w, n, b) = key
        name = "W%d_N%d_%s" % (w, n, "batch" if b else "nobatch")
        for e in evs:
            if e.get("ev") == "reset":
                e["W"] = int(w)      # the workload's window, for clause (5) of the monitor (script data, not an observation)
        return _validate_blocks2(ctx, evs, name, {"W": str(w), "N": str(n), "Batching": _tla_bool(b)})[1]
    groups = sorted(_group_events(scripts, events).items())
    for rejects in _par([(lambda k=k, e=e: one(k, e)) for k, e in groups], 3):
        for rj in rejects:
            sc = byid[_sid(rj["id"])]
            rs = rj["events"][0]
            line = rj["info"].get("line", {})
            one_sc = dict(sc, cfg=dict(sc["cfg"], only={"crash": rs.get("crashAt", -1), "retry": bool(rs.get("retry", True))}))
            what = "real secret store breaks C10 in block %s (crash at mutation %s, retry=%s) at line %s: observed %s" % (
                rj["id"], rs.get("crashAt"), rs.get("retry"), rj["at"], json.dumps(line, sort_keys=True)[:600])
            ctx.violation(what, {"script": one_sc, "observed": rj["events"], "rejected_line": line, "step": rj["at"]})
    ctx.evaluations += nblocks
    ctx.distinct_nontrivial += torn
    for bid, evs in blocks:
        if any(e.get("crashed") and e.get("muts") for e in evs) and len(ctx.samples) < 3:
            ctx.add_samples([{"block": bid, "cfg": byid[_sid(bid)]["cfg"], "workload": byid[_sid(bid)]["steps"], "observed": evs}], limit=3)
    ctx.extra["bounds"] = {"workloads": len({json.dumps(s["steps"], sort_keys=True) for s in scripts}), "scripts": len(scripts),
                           "blocks": nblocks, "blocks_with_crash": crashed, "blocks_with_torn_call": torn}
    ctx.assumptions += ["a stop = the datastore stops accepting operations at a mutation boundary (Put / Delete / Batch.Commit; a batch is atomic as on badger; a non-batching datastore variant is run too); torn single writes are outside the model",
                        "after the restart the interrupted call is retried (redelivery) or dropped; interrupted set-up calls are always retried; account import (restoreAccountKeys) is done outside the enumerated region (not in the property's list of operations)",
                        "\"was openable\" = opens on a copy of the datastore as it was when the interrupted call began",
                        "symbolic view of keys/payloads; in-memory map behind the recording datastore; TLC 1.8.0 and the Go toolchain trusted"]
    return ctx.finish(level="model_checking",
                      rule="blocks = (workload, crash index, retry/drop variant): every datastore mutation of every TLC-generated workload taken as the stop point; non-trivial = the interrupted call had applied at least one of its mutations (torn call)",
                      exhaustive=False,
                      technique="TLA+ spec RatchetStore.tla (one step per datastore mutation, Crash/Restart) model-checked by TLC; TLC-generated workloads run on real secret stores over a crashing datastore once per crash index; recordings checked by TLC against MonRatchetStore.tla (verdict) and TraceRatchetStore.tla (mutation order and state conformance)")


# ------------------------------------------------------------------------------------------ C09
def _c09_model(ctx):
    quick = ctx.tier == "quick"
    cfg = "MC_RatchetStore_c09.cfg"
    jobs = [lambda: ctx.tlc_expect_ok("RatchetStore", cfg, name="mc_2x2_lock", workers=2, timeout=1500),
            lambda: ctx.tlc_expect_ok("RatchetStore", cfg, name="mc_3x1_lock", workers=2, timeout=1500,
                                      consts={"Thr": '{"t1","t2","t3"}', "MsgPerThr": "1", "MaxSent": "3"}),
            # the strict comparison in updateCurrentKey is equivalent under the lock: no alarm expected
            lambda: ctx.tlc_expect_ok("RatchetStore", cfg, name="mc_2x2_lock_gt", workers=2, timeout=1500, consts={"MonoGE": "FALSE", "MaxOps": "0"}),
            lambda: _expect_violation(ctx, "mc_2x1_nolock", {"UseLock": "FALSE", "MsgPerThr": "1", "MaxSent": "2", "MaxOps": "0"},
                                      ("NoReuse", "C09_GapFree"), cfg=cfg)]
    if not quick:
        jobs += [lambda: ctx.tlc_expect_ok("RatchetStore", cfg, name="mc_3x2_lock", workers=4, timeout=2400,
                                           consts={"Thr": '{"t1","t2","t3"}', "MsgPerThr": "2", "MaxSent": "6", "MaxOps": "0"}),
                 lambda: _expect_violation(ctx, "mc_2x2_nolock", {"UseLock": "FALSE", "MaxOps": "0"}, ("NoReuse", "C09_GapFree"), cfg=cfg)]
    _par(jobs, 2)


def _contended(evs):
    """number of SealEnvelope calls whose [begin, return] interval overlaps another thread's call (measured)"""
    active, marked, calls = {}, set(), 0
    for i, e in enumerate(evs):
        if e.get("ev") == "tbegin":
            calls += 1
            cid = (e["t"], i)
            if active:
                marked.add(cid)
                marked.update(active.values())
            active[e["t"]] = cid
        elif e.get("ev") == "tret":
            active.pop(e["t"], None)
    return calls, len(marked)


def run_c09(ctx, replay=None):
    quick = ctx.tier == "quick"
    ov = ctx.overlay({PKG: FILES + ["vf_race_verif_test.go"]})
    if replay:
        scripts = [json.load(open(replay))["script"]]
    else:
        _c09_model(ctx)
        scripts = []
        thr, msgs = (8, 40) if quick else (16, 200)
        plans = [(2, 1, True), (3, 2, False)] if quick else [(2, 1, True), (3, 2, False), (100, 100, True)]
        for (w, n, b) in plans:
            for g in GTYPES:
                scripts.append({"id": len(scripts), "cfg": {"W": w, "N": n, "batching": b, "gtype": g, "mode": "par",
                                                            "threads": thr, "msgs": msgs}, "steps": []})
        scripts += _c09_schedules(ctx, len(scripts))
    events, out = vf.run_driver(ctx, PKG, "^TestVerifRace$", ov, scripts, "race", timeout=2400)
    byid = {s["id"]: s for s in scripts}
    blocks = _split_keep_reset(events)
    if {_sid(b) for b, _ in blocks} != set(byid):
        raise vf.Infra("driver did not record every run")
    if not replay:
        def corrupt09(b):
            rets = [e for e in b if e.get("ev") == "tret"]
            if len(rets) < 2:
                return None
            rets[-1]["k"] = rets[0]["k"]
            return b
        _selftest(ctx, MON, "c09_duplicate_counter", blocks[0][1], corrupt09)
    groups = {}
    for bid, evs in blocks:
        c = byid[_sid(bid)]["cfg"]
        groups.setdefault((c["W"], c["N"], bool(c["batching"])), []).extend(evs)

    def one(key, evs):
        (w, n, b) = key
        name = "c09_W%d_N%d_%s" % (w, n, "batch" if b else "nobatch")
        return _validate_blocks2(ctx, evs, name, {"W": str(w), "N": str(n), "Batching": _tla_bool(b)})[1]
    for rejects in _par([(lambda k=k, e=e: one(k, e)) for k, e in sorted(groups.items())], 3):
        for rj in rejects:
            sc = byid[_sid(rj["id"])]
            line = rj["info"].get("line", {})
            what = "real secret store breaks C09 in run %s (%s, %s) at line %s: observed %s" % (
                rj["id"], sc["cfg"]["mode"], sc["cfg"]["gtype"], rj["at"], json.dumps(line, sort_keys=True)[:600])
            lo = max(0, rj["at"] - 40)
            ctx.violation(what, {"script": sc, "observed_around": rj["events"][lo:rj["at"] + 3], "rejected_line": line, "step": rj["at"]})
    calls = cont = 0
    degenerate = sched_runs = 0
    for bid, evs in blocks:
        c, m = _contended(evs)
        calls += c
        cont += m
        if byid[_sid(bid)]["cfg"]["mode"] == "sched":
            sched_runs += 1
            degenerate += 1 if evs[0].get("blocked", 0) > 0 else 0
    ctx.evaluations += calls
    ctx.distinct_nontrivial += cont
    par = [(b, e) for b, e in blocks if byid[_sid(b)]["cfg"]["mode"] == "par"]
    if par:
        bid, evs = par[0]
        i0 = next(i for i, e in enumerate(evs) if e.get("ev") == "tbegin")
        ctx.add_samples([{"run": byid[_sid(bid)]["cfg"], "first_recorded_operations": evs[i0:i0 + 16]}], limit=2)
    ctx.extra["bounds"] = {"runs": len(scripts), "seal_calls": calls, "calls_overlapping_another": cont,
                           "controlled_schedules": sched_runs, "schedules_with_a_thread_blocked_on_the_mutex": degenerate}
    if not replay:
        import sealsched
        sealsched.run_part(ctx)
        # several groups of one account at once (account / contact groups share the device key), MonMultiGroup.tla
        import multigroup
        multigroup.run_part(ctx)
    ctx.assumptions += ["real-parallel executions come from the Go scheduler (plus seeded delays in the datastore wrapper), not from TLC; TLC validates the recordings",
                        "controlled schedules are exhaustive only at the gates (chain-key reads, datastore mutations, call begin); a thread waiting for the mutex is detected from its goroutine wait state",
                        "in-memory map behind the recording datastore; TLC 1.8.0 and the Go toolchain trusted"]
    return ctx.finish(level="model_checking",
                      rule="evaluations = SealEnvelope calls recorded (parallel runs + controlled schedules); non-trivial = calls whose begin..return interval overlaps another thread's call in the recorded order",
                      exhaustive=False,
                      technique="TLA+ spec RatchetStore.tla (SealEnvelope split at every chain-key read/write, mutex explicit) model-checked by TLC with and without the mutex; real-parallel runs with seeded delays and TLC-generated schedules imposed through datastore gates; recordings checked by TLC against MonRatchetStore.tla (verdict) and TraceRatchetStore.tla (thread-step conformance)")


def _c09_schedules(ctx, start_id):
    """controlled interleavings: schedules of the lock-free model variant, the duplicating ones first"""
    quick = ctx.tier == "quick"
    plans = [('{"t0","t1"}', 2, 1, None, 160)] if quick else \
            [('{"t0","t1"}', 2, 1, None, 1500), ('{"t0","t1"}', 2, 2, 3000, 1200), ('{"t0","t1","t2"}', 3, 1, 3000, 1200)]
    scripts = []
    for (thr, nthr, msgs, simnum, limit) in plans:
        kw = dict(simulate="num=%d" % simnum, depth=nthr * msgs * 7 + 2) if simnum else {}
        r = ctx.tlc("GenSealSched", "Gen_SealSched.cfg", name="sched_%dx%d" % (nthr, msgs), workers=1 if simnum else 2,
                    consts={"Thr": thr, "MsgPerThr": str(msgs), "MaxSent": str(nthr * msgs)}, timeout=1500, heap="6g", **kw)
        seen, dup, nodup = set(), [], []
        for rec in r.printed.get("SCHED", []):
            steps = [st for st in rec["steps"] if st["act"] != "ret"]
            if len(steps) != nthr * msgs * 6:
                continue
            k = json.dumps(steps)
            if k in seen:
                continue
            seen.add(k)
            (dup if rec["dup"] else nodup).append(steps)
        dup.sort(key=json.dumps)
        nodup.sort(key=json.dumps)
        ctx.rng.shuffle(dup)
        ctx.rng.shuffle(nodup)
        chosen = dup[:limit - min(len(nodup), limit // 8)] + nodup[:limit // 8]
        ctx.extra.setdefault("schedules", []).append({"threads": nthr, "msgs": msgs, "distinct_schedules": len(seen),
                                                      "duplicating_in_lock_free_model": len(dup), "replayed": len(chosen)})
        for steps in chosen:
            sid = start_id + len(scripts)
            scripts.append({"id": sid, "cfg": {"W": 2, "N": 1, "batching": sid % 2 == 0, "gtype": GTYPES[sid % 3], "mode": "sched",
                                               "threads": nthr, "msgs": msgs}, "steps": steps})
    return scripts
