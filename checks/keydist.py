"""C05 part (c): completeness of chain-key distribution (specs/KeyDistribution.tla).

run_part_c(ctx, info=None, replay_obj=None) adds its TLC runs, evaluations, samples and violations to the
given ctx and does NOT call ctx.finish (same signature as the parts of checks/c05.py; stand-alone entry for
development: checks/c05c.py).

1. design level: KeyDistribution.tla model-checked exhaustively (every activation order, every delivery
   interleaving, every interleaving of the activation's steps with the handler) for the choices the code
   makes, and - vacuity guard - for six different designs each of which TLC must show to break completeness;
2. GenKeyDistribution enumerates / samples environment scripts (who activates when, which head is delivered
   to which replica when); the Go driver replays them on real group contexts over real orbit-db replicas,
   sequentially (handlers idle between steps) and as variants with a racing section (a delivery lands inside an
   activation whose log appends are slowed down);
3. verdict: MonKeyDistribution (TLC) over the observed values; full-spec conformance of the sequential
   runs against TraceKeyDistribution is model drift only."""
import json, os, re, subprocess, threading
import vf

PKG = "."
FILES = ["vf_replica_verif_test.go", "vf_keydist_verif_test.go"]
DRV = "^TestVerifKeyDist$"
MON = ("MonKeyDistribution", "Mon_KeyDistribution.cfg")
CONF = ("TraceKeyDistribution", "Trace_KeyDistribution.cfg")

# device dXY = device Y of member mX (the member of a device is fixed by its name in every shape)
SHAPES = {
    "1x2": {"m1": ["d11", "d12"]},
    "2x1": {"m1": ["d11"], "m2": ["d21"]},
    "2+1": {"m1": ["d11", "d12"], "m2": ["d21"]},
    "3x1": {"m1": ["d11"], "m2": ["d21"], "m3": ["d31"]},
    "2x2": {"m1": ["d11", "d12"], "m2": ["d21", "d22"]},
    "2+1+1": {"m1": ["d11", "d12"], "m2": ["d21"], "m3": ["d31"]},
    "4x1": {"m1": ["d11"], "m2": ["d21"], "m3": ["d31"], "m4": ["d41"]},
    "3x2": {"m1": ["d11", "d12"], "m2": ["d21", "d22"], "m3": ["d31", "d32"]},
}
DEV = os.environ.get("KEYDIST_DEV", "")     # development switches, never set by registered commands
JITTERS = [0, 1000, 3000]       # racing sections: the activation starts after a seeded delay below this (us)
SLOWS = [6000, 12000, 20000]    # racing sections: latency of every log append of the activating device (us)
IMPL = ["ImplHandlerSends", "ImplSendExisting", "ImplFill", "ImplSubscribeFirst", "ImplSentOwnOnly", "ImplFilterMember"]
# smallest shape on which each different design breaks completeness (ImplFill needs a second device of a served member)
MUTANT_SHAPE = {"ImplFill": "1x2"}


def tla_set(xs):
    return "{" + ", ".join('"%s"' % x for x in xs) + "}"


def shape_consts(shape):
    m = SHAPES[shape]
    return {"M%d" % i: tla_set(m.get("m%d" % i, [])) for i in range(1, 5)} if len(m) <= 4 else None


def _parallel(jobs, width):
    """run callables concurrently (TLC subprocesses); returns results in order, re-raises the first error"""
    res, err = [None] * len(jobs), []
    sem = threading.Semaphore(width)

    def work(i, f):
        with sem:
            try:
                res[i] = f()
            except BaseException as e:      # noqa
                err.append(e)
    ts = [threading.Thread(target=work, args=(i, f)) for i, f in enumerate(jobs)]
    for t in ts:
        t.start()
    for t in ts:
        t.join()
    if err:
        raise err[0]
    return res


def _count(ctx, r, name=None):
    """add a TLC run's numbers to the ctx (simulation runs report their count on a line lib/vf.py does not parse)"""
    if r.generated == 0:
        m = re.search(r"The number of states generated: (\d+)", r.out)
        if m:
            r.generated = int(m.group(1))
            for t in ctx.tlc_runs:
                if t["wall_s"] == round(r.wall, 2) and t["generated"] == 0 and t["mode"] == "simulate":
                    t["generated"] = r.generated
    ctx.states += r.distinct
    ctx.transitions += r.generated


def design_jobs(ctx):
    """TLC jobs of the design level: [(label, callable)]"""
    quick = ctx.tier == "quick"
    jobs = []

    def mc(shape, flip=None, eager=False, workers=1, simulate=None, timeout=1200):
        consts = dict(shape_consts(shape))
        if flip:
            consts[flip] = "FALSE"
        cfg = "MC_KeyDistribution.cfg"
        if eager:
            consts["Eager"] = "TRUE"
            cfg = "MCE_KeyDistribution.cfg"
        name = "c_mc_%s_%s%s" % (shape.replace("+", "p"), flip or "code", "_eager" if eager else "")
        return lambda: ctx.tlc("KeyDistribution", cfg, name=name, workers=workers, consts=consts, simulate=simulate, depth=200 if simulate else None,
                               allow_violation=True, timeout=timeout, count=False, heap="6g")
    # the code's choices, exhaustive: every activation order, every arrival order, every interleaving of the
    # activation's steps and the handler.  Eager = arrivals at devices past their parallel phase taken at once
    # (a sound reduction for Completeness, see the spec); without it all four invariants are checked.
    plan = [("2x1", False, 1), ("1x2", False, 1), ("2+1", True, 2), ("3x1", True, 1)] if quick else \
           [("2x1", False, 1), ("1x2", False, 1), ("2+1", False, 3), ("3x1", False, 2), ("2+1", True, 1), ("3x1", True, 1), ("4x1", True, 4)]
    for shape, eager, w in plan:
        jobs.append(((shape, None, eager, False), mc(shape, eager=eager, workers=w)))
    # beyond: seeded random walks of the exhaustive-mode model
    for shape, n in ([] if quick else [("2x2", 400), ("3x2", 100), ("2+1+1", 200)]):
        jobs.append(((shape, None, False, True), mc(shape, simulate="num=%d" % n)))
    # each different design must break completeness (otherwise the model does not see what the replay must catch)
    for flip in IMPL:
        shape = MUTANT_SHAPE.get(flip, "2x1")
        jobs.append(((shape, flip, False, False), mc(shape, flip)))
    return jobs


def design_results(ctx, labelled, out):
    for (shape, flip, eager, sim), r in labelled:
        _count(ctx, r)
        if flip is None:
            if not r.ok:
                raise vf.Infra("KeyDistribution.tla with the code's choices must satisfy its invariants on %s: %s" % (shape, r.violated))
            key = "code_%s%s" % (shape, "_eager" if eager else "_walks" if sim else "")
            out[key] = {"ok": True, "states_generated": r.generated, "mode": "random walks"} if sim else \
                       {"ok": True, "distinct_states": r.distinct, "depth": r.depth, "mode": "exhaustive"}
        else:
            if r.violated != "Completeness":
                raise vf.Infra("vacuity guard: design %s=FALSE does not break Completeness on %s (%s)" % (flip, shape, r.violated))
            out["%s=FALSE_%s" % (flip, shape)] = "Completeness violated"


def _features(h):
    """coarse class of a script: activation order, whether a delivery precedes the receiver's activation"""
    started, order, pre, post = set(), [], 0, 0
    for x in h:
        if x["act"] == "activate":
            started.add(x["d"])
            order.append(x["d"])
        elif x["act"] == "deliver" and x["d"] in started:
            post += 1
        else:
            pre += 1
    return (tuple(order), pre > 0, post > 0)


def _spread(ctx, hs, n):
    """pick n histories spread over the feature classes (seeded)"""
    seen, uniq = set(), []
    for h in hs:
        k = json.dumps(h, sort_keys=True)
        if k not in seen:
            seen.add(k)
            uniq.append(h)
    uniq.sort(key=lambda h: json.dumps(h, sort_keys=True))
    if len(uniq) <= n:
        return uniq
    buckets = {}
    for h in uniq:
        buckets.setdefault(_features(h), []).append(h)
    keys = sorted(buckets, key=repr)
    ctx.rng.shuffle(keys)
    for k in keys:
        ctx.rng.shuffle(buckets[k])
    out = []
    while len(out) < n:
        for k in keys:
            if buckets[k] and len(out) < n:
                out.append(buckets[k].pop())
    return out


def _pre(h, d):
    """indices of the deliveries to d that precede d's activation"""
    ia = next((i for i, x in enumerate(h) if x["act"] == "activate" and x["d"] == d), None)
    return [] if ia is None else [i for i in range(ia) if h[i]["act"] == "deliver" and h[i]["d"] == d]


def _raceable(h):
    """devices whose activation is preceded by at least two deliveries: when the last one is made to race with
    the activation, the activation already has members to serve (slow appends) while the delivery arrives"""
    return sorted(d for d in {x["d"] for x in h if x["act"] == "activate"} if len(_pre(h, d)) >= 2)


def _racify(rng, h):
    """variant of a script with a racing section (steps with y = 1, see the driver): for a seeded choice of one
    activation (one preceded by two deliveries if there is any), the activation is moved in front of the last
    delivery that preceded it (if any) and this pair plus the next step race - the delivery lands inside the activation
    whose log appends are slowed down; the rest of the script stays sequential, so the racing device starts
    from a known state"""
    h = [dict(x, y=0) for x in h]
    good = _raceable(h)
    rest = sorted({x["d"] for x in h if x["act"] == "activate"} - set(good))
    rng.shuffle(good)
    rng.shuffle(rest)
    acts = good + rest
    for d in acts[:1]:      # one racing activation per variant: everything it depends on has happened sequentially
        ia = next(i for i, x in enumerate(h) if x["act"] == "activate" and x["d"] == d)
        pre = _pre(h, d)
        if pre:
            h.insert(pre[-1], h.pop(ia))
            ia = pre[-1]
        for x in h[ia:ia + 3]:
            x["y"] = 1
    return h


def gen_plan(ctx):
    # (shape, MaxLen, mode, walks, sequential scripts kept, variants with a racing section)
    if ctx.tier == "quick":
        return [("2x1", 6, "bfs", 0, 8, 3), ("1x2", 5, "bfs", 0, 4, 2), ("2+1", 9, "sim", 150, 20, 8), ("3x1", 9, "sim", 80, 6, 3), ("2x2", 11, "sim", 80, 8, 4)]
    return [("2x1", 6, "bfs", 0, 110, 40), ("1x2", 5, "bfs", 0, 40, 12), ("2+1", 10, "sim", 600, 200, 80), ("3x1", 10, "sim", 300, 80, 30),
            ("2x2", 12, "sim", 300, 90, 40), ("2+1+1", 12, "sim", 200, 50, 20), ("4x1", 12, "sim", 150, 40, 15), ("3x2", 16, "sim", 100, 24, 10)]


def gen_jobs(ctx, plan):
    jobs = []
    for (shape, maxlen, mode, walks, keep, npar) in plan:
        consts = dict(shape_consts(shape), MaxLen=str(maxlen))
        name = "c_gen_%s" % shape.replace("+", "p")
        if mode == "bfs":
            jobs.append(lambda consts=consts, name=name: ctx.tlc("GenKeyDistribution", "Gen_KeyDistribution.cfg", name=name, workers=1,
                                                                 consts=consts, timeout=900, count=False))
        else:
            jobs.append(lambda consts=consts, name=name, walks=walks, maxlen=maxlen: ctx.tlc(
                "GenKeyDistribution", "Gen_KeyDistribution.cfg", name=name, workers=1, simulate="num=%d" % walks, depth=12 * maxlen,
                consts=consts, timeout=900, count=False, heap="4g"))
    return jobs


def gen_results(ctx, plan, res):
    scripts, per_shape = [], {}
    for (shape, maxlen, mode, walks, keep, npar), r in zip(plan, res):
        _count(ctx, r)
        hs = r.printed.get("SCRIPT", [])
        if not hs:
            raise vf.Infra("GenKeyDistribution produced no script for " + shape)
        chosen = _spread(ctx, hs, keep)
        for h in chosen:
            scripts.append({"cfg": {"members": SHAPES[shape], "shape": shape, "par": False, "part": "c"}, "steps": h})
        # racing variants: preferably of scripts in which an activation is preceded by two deliveries to that device
        uniq = _spread(ctx, hs, 10 ** 9)
        pool = [h for h in uniq if _raceable(h)]
        racing = _spread(ctx, pool, (npar * 2 + 2) // 3)
        racing += _spread(ctx, [h for h in chosen if h not in racing], npar - len(racing))
        for h in racing:
            # variants with racing sections: deliveries land inside activations whose log appends are slowed down
            scripts.append({"cfg": {"members": SHAPES[shape], "shape": shape, "par": True, "part": "c",
                                    "jitter_us": ctx.rng.choice(JITTERS), "slow_us": ctx.rng.choice(SLOWS)}, "steps": _racify(ctx.rng, h)})
        per_shape[shape] = {"generated": len({json.dumps(h, sort_keys=True) for h in hs}), "sequential": len(chosen), "racing": len(racing),
                            "mode": "exhaustive up to %d environment moves" % maxlen if mode == "bfs" else "%d seeded walks, <= %d environment moves" % (walks, maxlen)}
    for i, s in enumerate(scripts):
        s["id"] = 500000 + i
    return scripts, per_shape


def _names(have):
    return sorted("%s.%s.%s%s" % (e["k"], e["w"], e["m"], "" if e.get("n", 1) <= 1 else "#%d" % e["n"]) for e in have)


def _announced(st):
    return sorted({e["w"] for d in st for e in st[d]["have"] if e["k"] == "A"})


def _explain(line):
    """which clause of the monitor the rejected line breaks (for the report; the verdict is TLC's)"""
    st = line.get("st", {})
    probs = []
    for d in sorted(st):
        for x in st[d]["known"]:
            if not any(e["k"] == "S" and e["w"] == x and e["m"] == st[d]["m"] for e in st[d]["have"]):
                probs.append(("sound", "%s knows the chain key of %s without holding an announcement of %s for %s" % (d, x, x, st[d]["m"])))
    if line.get("ev") == "final":
        ann = _announced(st)
        missing = [(a, b) for a in ann for b in ann if a != b and b not in st[a]["known"]]
        if missing:
            probs.append(("complete", "after the full exchange (announced: %s) these devices lack a chain key: %s" % (
                ", ".join(ann), ", ".join("%s lacks %s" % p for p in missing))))
        bad = [r for r in line.get("reg", []) if not r["ok"]]
        if bad:
            probs.append(("regok", "RegisterChainKey refused announcements addressed to the own member: %s" % bad))
    return probs or [("unknown", "line rejected: %s" % json.dumps(line, sort_keys=True)[:300])]


def _show(sc):
    return " ; ".join("%s%s %s%s" % ("~" if x.get("y") else "", x["act"], x["d"], "" if x.get("s", "-") == "-" else " " + x["s"]) for x in sc["steps"])


def run_part_c(ctx, info=None, replay_obj=None):
    info = info if info is not None else {"parts": {}, "rules": [], "techniques": [], "design_level": {}}
    ov = ctx.overlay({PKG: FILES})
    per_shape = {}
    # the root package's test binary takes a while to link: build it while TLC works
    build = {}

    def compile_driver():
        try:
            build["bin"] = ctx.go_test_compile(PKG, ov, name="keydist")
        except BaseException as e:      # noqa
            build["err"] = e
    bt = threading.Thread(target=compile_driver)
    bt.start()
    try:
        if replay_obj is not None:
            scripts = [replay_obj["script"]]
        else:
            # all TLC runs of the design level and of the script generation side by side (small models: JVM start dominates)
            dj, plan = design_jobs(ctx), gen_plan(ctx)
            if "nomc" in DEV:       # development only (mutation runs): skip the design-level model checking
                dj = []
            gj = gen_jobs(ctx, plan)
            res = _parallel([f for _, f in dj] + gj, 4)
            dl = {}
            design_results(ctx, zip([lab for lab, _ in dj], res[:len(dj)]), dl)
            info["design_level"]["c"] = dl
            scripts, per_shape = gen_results(ctx, plan, res[len(dj):])
    finally:
        bt.join()
    if "err" in build:
        raise build["err"]
    byid = {s["id"]: s for s in scripts}
    events = ctx.run_sharded(build["bin"], DRV, PKG, scripts, "keydist", shards=2, env={"VERIF_WORKERS": "3"}, timeout=2400)
    blocks = dict(vf.split_traces(events))
    if set(blocks) != set(byid):
        raise vf.Infra("key distribution driver did not record every script")
    # the antecedent of the property must have been established by the driver on every run
    for sid, evs in blocks.items():
        fin = evs[-1]
        if fin.get("ev") != "final":
            raise vf.Infra("script %s has no final line" % sid)
        st = fin["st"]
        ann = _announced(st)
        allnames = set()
        for d in st:
            allnames |= set(_names(st[d]["have"]))
        if any(set(_names(st[d]["have"])) != allnames for d in ann):
            raise vf.Infra("script %s: the final exchange did not bring every entry to every announced device" % sid)
    seq_ids = [s["id"] for s in scripts if not s["cfg"].get("par")]
    # verdict (monitor) and full-spec conformance (drift only) side by side
    conf_evs = []
    for i in seq_ids:
        conf_evs.append({"ev": "reset", "id": i})
        conf_evs.extend(blocks[i])
    jobs = [lambda: vf.validate_blocks(ctx, MON, events, "keydist", timeout=1500)]
    if "noconf" not in DEV:
        jobs.append(lambda: conformance(ctx, conf_evs))
    (acc, rejects) = _parallel(jobs, 2)[0]
    ctx.evaluations += len(scripts)
    # non-trivial: at least two announced devices at the end and a scripted delivery that moved entries
    nontriv, pairs, hung, dup = 0, 0, 0, 0
    for s in scripts:
        evs = blocks[s["id"]]
        ann = _announced(evs[-1]["st"])
        pairs += len(ann) * (len(ann) - 1)
        if len(ann) >= 2 and any(e.get("ev") == "deliver" and e.get("gain") for e in evs):
            nontriv += 1
        hung += sum(1 for d, v in evs[-1]["st"].items() if v["act"] and not v["ret"])
        dup += 1 if any(e.get("n", 1) > 1 for v in evs[-1]["st"].values() for e in v["have"]) else 0
    ctx.distinct_nontrivial += nontriv
    for rj in rejects:
        sc = byid[rj["id"]]
        line = rj["info"].get("line", {})
        for key, txt in _explain(line)[:1]:
            what = "chain-key distribution breaks C05(c) [%s] in a %s group (%s): %s; script: %s" % (
                key, sc["cfg"].get("shape"), "racing sections marked ~" if sc["cfg"].get("par") else "sequential", txt, _show(sc))
            ctx.classify("c:" + key, what, {"part": "c", "script": sc, "observed": rj["events"], "rejected_line": line, "step": rj["at"]})
    def git(*a):
        try:
            return subprocess.run(["git", "-C", vf.REPO] + list(a), stdout=subprocess.PIPE, stderr=subprocess.DEVNULL, text=True, timeout=60).stdout.rstrip()
        except Exception:      # noqa
            return "?"
    tree = {"repo": vf.REPO, "head": git("rev-parse", "HEAD"), "modified_files": [l[3:] for l in git("status", "--porcelain").splitlines() if l]}
    info["parts"]["c"] = {"tree": tree, "scripts": len(scripts), "sequential": len(seq_ids), "with_racing_sections": len(scripts) - len(seq_ids),
                          "per_shape": per_shape, "device_pairs_checked_at_quiescence": pairs,
                          "activations_not_returned": hung, "runs_with_duplicate_announcements": dup}
    for s in scripts:
        evs = blocks[s["id"]]
        if s["cfg"].get("shape") in ("2+1", "2x2") and not s["cfg"].get("par") and len(_announced(evs[-1]["st"])) >= 3:
            fin = evs[-1]
            ctx.add_samples([{"part": "c", "shape": s["cfg"]["shape"], "script": _show(s),
                              "observed_final": {d: {"known": v["known"], "entries": len(v["have"])} for d, v in fin["st"].items()},
                              "exchange_rounds": fin["rounds"]}], limit=7)
            break
    info["rules"].append("(c) environment scripts of GenKeyDistribution (activation order x causal deliveries of single heads before / between / after the activations; 2x1 exhaustive, larger groups seeded walks spread over activation orders) replayed on real group contexts, sequentially and as variants in which a delivery races with an activation whose log appends are slowed down; every script ends with a full exchange; non-trivial = at least two announced devices and a scripted delivery that moved entries")
    info["techniques"].append("KeyDistribution.tla model-checked by TLC (the code's design satisfies completeness on 2x1, 2 members with 2+1 devices, 3x1; six different designs each break it); TLC-generated scripts replayed on real orbit-db peers; observed values checked by TLC against MonKeyDistribution.tla (verdict) and TraceKeyDistribution.tla (conformance)")
    return info


def conformance(ctx, evs):
    """TraceKeyDistribution: the recorded sequential runs are behaviours of the specification (drift only)"""
    d = ctx.sub("val_keydist_conf")
    left, nd = list(vf.split_traces(evs)), 0
    while left and nd < 3:
        flat, index = vf._flatten(left)
        tp = os.path.join(d, "conf_%d.ndjson" % nd)
        vf.write_ndjson(tp, flat)
        ok, inf = ctx.validate_trace(CONF[0], CONF[1], tp, name="keydist_conf_%d" % nd, strict=True, timeout=1500)
        if ok:
            break
        nd += 1
        rec = {"trace": "keydist", "info": {k: inf.get(k) for k in ("high", "line", "invariant")}}
        ctx.drift.append(rec)
        vf.log("model drift (full-spec conformance) in keydist", str(rec)[:400])
        if "high" not in inf:
            break
        bi = max(i for i, (start, _) in enumerate(index) if start <= inf["high"])
        left = left[:bi] + left[bi + 1:]
    ctx.extra["conformant_traces"] = ctx.extra.get("conformant_traces", 0) + (len(left) if nd < 3 else 0)


ASSUMPTIONS = [
    "(c) real peers share one in-memory IPFS node; stores are opened LocalOnly; metadata entries move only by BaseStore.Sync on request of the driver (a head with the part of its causal past the receiver lacks)",
    "(c) handler idleness is decided by an event-bus barrier (more no-op events than the subscription buffers hold, Emit blocks): assumes the store's event loop and the group context's handler stay sequential consumers with buffers below 300",
    "(c) every device that activates stays active; no restart / re-activation of a group context",
]
