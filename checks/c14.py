import json

import ratchet


def run(ctx, replay=None):
    rp = json.load(open(replay)) if replay else None
    if rp and rp.get("family") == "pushsvc":
        import pushsvc
        pushsvc.run_part(ctx, rp)
        return ctx.finish(level="model_checking", rule="replay: service layer (OutOfStoreSeal / OutOfStoreReceive / standalone service)", exhaustive=False,
                          technique="replay of one recorded service-layer script; TLC trace validation against MonPushSvc")
    if not replay:
        # service layer: OutOfStoreSeal at the sender, OutOfStoreReceive at the receiver service and at the standalone
        # pkg/outofstoremessage service, GroupMessageList for the log path (MonPushSvc.tla)
        finish = ctx.finish

        def finish_with_service_layer(**kw):
            ctx.finish = finish
            import pushsvc
            pushsvc.run_part(ctx)
            kw["technique"] = kw.get("technique", "") + "; service layer: three real services, OutOfStoreSeal / OutOfStoreReceive / standalone OOSM service, judged by MonPushSvc"
            return finish(**kw)
        ctx.finish = finish_with_service_layer
    return ratchet.run_c14(ctx, replay)
