import ratchet


def run(ctx, replay=None):
    return ratchet.run_c14(ctx, replay)
