"""C19: specs/ServiceAPI.tla bound to the protocol service (root package) and the exported helpers."""
import json, os, re, glob, collections, subprocess, threading, time
import vf

PKG = "."
FILES = ["vf_service_verif_test.go"]
DRV = "^TestVerifServiceAPI$"
MON = ("MonServiceAPI", "Mon_ServiceAPI.cfg")
CONF = ("TraceServiceAPI", "Trace_ServiceAPI.cfg")
MAX_DEATHS = 8


# --------------------------------------------------------------------------- generation
def _merge(printed, rng, helper_reps):
    """TLC prints one history per (walk, final step).  Finals that the model says leave the state
    unchanged are executed back to back after ONE execution of their walk (order drawn from the
    seed); a state-changing final gets a script of its own."""
    seen, hs = set(), []
    for h in printed:
        k = json.dumps(h, sort_keys=True)
        if k not in seen:
            seen.add(k)
            hs.append(h)
    hs.sort(key=lambda h: json.dumps(h, sort_keys=True))
    groups = collections.OrderedDict()
    for h in hs:
        groups.setdefault(json.dumps(h[:-1], sort_keys=True), []).append(h)
    sweeps, singles = [], []
    for wk, members in groups.items():
        walk = json.loads(wk)
        keep = [h[-1] for h in members if not h[-1]["res"]["chg"]]
        helpers = [s for s in keep if s["act"] == "helper"]
        keep = [s for s in keep if s["act"] != "helper"]
        rng.shuffle(keep)
        if keep:
            sweeps.append({"kind": "sweep", "walk": len(walk), "steps": walk + keep})
        if helpers:
            hh = []
            for _ in range(helper_reps):
                hh += helpers
            rng.shuffle(hh)
            sweeps.append({"kind": "helpers", "walk": 0, "steps": hh})
        for h in members:
            if h[-1]["res"]["chg"]:
                singles.append({"kind": "single", "walk": len(walk), "steps": h})
    sweeps.sort(key=lambda s: -len(s["steps"]))
    out = []
    for i, s in enumerate(sweeps + singles):
        out.append({"id": i, "cfg": {"kind": s["kind"], "walk": s["walk"]}, "steps": s["steps"]})
    return out, len(hs), len(groups)


def _gen(ctx):
    quick = ctx.tier == "quick"
    # 1. exhaustive check of the model: no request shape has the outcome Panic, every shape the property
    #    demands an error for is answered by nothing but an error, in every reachable state
    res = {}

    def job(key, *a, **kw):
        try:
            res[key] = ctx.tlc(*a, **kw)
        except Exception as ex:
            res[key] = ex
    # (quick: contacts stay in their initial lifecycle states - MustErr never depends on them; thorough: up
    #  to two tracked contacts moved, both values of the Impl constant)
    mcs = [("ImplCurrent", "MC_ServiceAPI.cfg", 1 if quick else 2)]
    if not quick:
        mcs.append(("ImplOldIndex", "MC_ServiceAPI_oldindex.cfg", 1))
    jobs = [threading.Thread(target=job, args=("mc_" + impl, "ServiceAPI", cfg),
                             kwargs=dict(name="mc_" + impl, workers=w, consts={"MaxDev": "0" if quick else "2"}, timeout=2400))
            for impl, cfg, w in mcs]
    # 2. enumeration of walks x final steps
    jobs.append(threading.Thread(target=job, args=("gen", "GenServiceAPI", "Gen_ServiceAPI.cfg"),
                                 kwargs=dict(name="gen", workers=1, consts={"MaxWalk": "2" if quick else "3"}, timeout=1500, heap="8g")))
    for j in jobs:
        j.start()
    for j in jobs:
        j.join()
    for k, r in res.items():
        if isinstance(r, Exception):
            raise r
        if not r.ok:
            raise vf.Infra("TLC run %s failed: %s\n%s" % (k, r.violated, "\n".join(r.out.splitlines()[-30:])))
    r = res["gen"]
    scripts, nh, nw = _merge(r.printed.get("SCRIPT", []), ctx.rng, 25 if quick else 200)
    ctx.extra["bounds"] = {"max_walk": 2 if quick else 3, "histories": nh, "walks": nw, "scripts": len(scripts),
                           "sweeps": sum(1 for s in scripts if s["cfg"]["kind"] == "sweep"),
                           "singles": sum(1 for s in scripts if s["cfg"]["kind"] == "single")}
    return scripts


# --------------------------------------------------------------------------- driving (with process deaths)
def _read_progress(base):
    out = []
    for p in sorted(glob.glob(base + ".w*")):
        try:
            line = open(p).read().split("\n")[0].strip()
        except OSError:
            continue
        f = line.split()
        if len(f) >= 3 and f[2] in ("direct", "grpc"):
            out.append({"sid": int(f[0]), "step": int(f[1]), "via": f[2], "what": " ".join(f[3:])})
        elif len(f) >= 2 and f[1] in ("setup", "reset"):
            out.append({"sid": int(f[0]), "step": -1, "via": f[1], "what": f[1]})
    return out


def _panic_text(out):
    m = re.search(r"^(panic: .*|fatal error: .*)$", out, re.M)
    if not m:
        return ""
    tail = out[m.start():].splitlines()
    keep = [l for l in tail if not l.startswith("\t")][:14]
    return " <- ".join(keep)[:1500]


def _build(ctx, ov):
    """link the driver once (the root test binary takes long to link); every (re)run executes the binary"""
    out = os.path.join(ctx.scratch, "serviceapi.test")
    cmd = ["go", "test", "-c", "-tags", "verif", "-vet=off", "-overlay", ov, "-o", out, "."]
    t0 = time.time()
    try:
        p = subprocess.run(cmd, cwd=vf.REPO, env=ctx.go_env(), stdout=subprocess.PIPE, stderr=subprocess.STDOUT,
                           text=True, errors="replace", timeout=2400)
    except subprocess.TimeoutExpired:
        raise vf.Infra("go test -c timeout")
    vf.log("driver built: rc=%s in %.1fs" % (p.returncode, time.time() - t0))
    if p.returncode != 0 or not os.path.exists(out):
        raise vf.Infra("driver does not build against the current tree:\n" + "\n".join(p.stdout.splitlines()[:40]))
    ctx.extra["build_s"] = round(time.time() - t0, 1)
    return out


def _one(ctx, binary, scripts, name, env, timeout):
    d = ctx.sub("drv_" + name)
    sp, tp, pp = os.path.join(d, "scripts.ndjson"), os.path.join(d, "trace.ndjson"), os.path.join(d, "progress")
    vf.write_ndjson(sp, scripts)
    e = {"VERIF_SCRIPTS": sp, "VERIF_TRACE_OUT": tp, "VERIF_PROGRESS": pp}
    e.update(env or {})
    cmd = [binary, "-test.run", DRV, "-test.timeout", "%ds" % timeout, "-test.count", "1"]
    t0 = time.time()
    try:
        p = subprocess.run(cmd, cwd=vf.REPO, env=ctx.go_env(e), stdout=subprocess.PIPE, stderr=subprocess.STDOUT,
                           text=True, errors="replace", timeout=timeout + 120)
    except subprocess.TimeoutExpired:
        raise vf.Infra("driver timeout: " + name)
    rc, out = p.returncode, p.stdout
    with open(os.path.join(ctx.scratch, name + ".gotest.out"), "w") as f:
        f.write(out)
    vf.log("driver %s: %d scripts, rc=%s in %.1fs" % (name, len(scripts), rc, time.time() - t0))
    if "VERIF-INFRA" in out:
        raise vf.Infra("driver infrastructure error:\n" + "\n".join([l for l in out.splitlines() if "VERIF-INFRA" in l][:5]))
    if "no tests to run" in out:
        raise vf.Infra("driver %s not found" % DRV)
    events = vf.read_ndjson(tp) if os.path.exists(tp) else []
    donetxt = open(pp + ".done").read() if os.path.exists(pp + ".done") else ""
    done = "VERIF-DONE" in donetxt
    if rc == 0 and not done:
        raise vf.Infra("driver passed without finishing:\n" + "\n".join(out.splitlines()[-30:]))
    if rc != 0 and done:
        raise vf.Infra("driver finished but the test failed:\n" + "\n".join(out.splitlines()[-30:]))
    m = re.search(r"VERIF-DONE scripts=(\d+) services=(\d+) calls=(\d+)", donetxt)
    if m:
        ctx.extra["services_started"] = ctx.extra.get("services_started", 0) + int(m.group(2))
    return events, done, out, _read_progress(pp)


def _same_request_labels(scripts, rpc, a, via):
    """labels of every step that sends the same request shape the same way (skipped once one of them killed the process)"""
    out = set()
    for sc in scripts:
        for i, st in enumerate(sc["steps"]):
            sa = st.get("a", {})
            if st["act"] == rpc and (sa.get("k"), sa.get("p")) == (a.get("k"), a.get("p")) and (via == "grpc" or sa.get("s") == a.get("s")):
                out.add("%d:%d%s" % (sc["id"], i, ":grpc" if via == "grpc" else ""))
    return out


def _drive(ctx, binary, scripts, timeout=2400):
    """Run all scripts.  A driver that dies is a violation candidate: each call that was in flight is
    re-run alone in a fresh process (the script up to that call; a call that was going through gRPC is the
    only one sent through gRPC).  A death that reproduces is attributed to the call the re-run died in and
    recorded as a `crash` event of that script; a death no re-run reproduces is an infrastructure error."""
    byid = {s["id"]: s for s in scripts}
    blocks, skip, deaths, crashes = {}, set(), 0, {}
    todo = list(scripts)
    rnd = 0
    while todo:
        rnd += 1
        events, done, out, prog = _one(ctx, binary, todo, "run%d" % rnd, {"VERIF_SKIP": ",".join(sorted(skip))}, timeout)
        for bid, evs in vf.split_traces(events):
            blocks[bid] = evs
        if done:
            break
        deaths += 1
        vf.log("driver died (round %d); in flight: %s" % (rnd, prog))
        if deaths > MAX_DEATHS:
            ctx.extra["incomplete"] = "driver died %d times; %d scripts not executed" % (deaths, len([s for s in todo if s["id"] not in blocks]))
            break
        attributed = False
        for c in [p for p in prog if p["step"] >= 0]:
            sc = byid[c["sid"]]
            cut = dict(sc, steps=sc["steps"][:c["step"] + 1])
            mode = ("only:%d:%d" % (c["sid"], c["step"])) if c["via"] == "grpc" else "off"
            ev2, done2, out2, prog2 = _one(ctx, binary, [cut], "attr%d_%d_%d_%s" % (rnd, c["sid"], c["step"], c["via"]),
                                           {"VERIF_WORKERS": "1", "VERIF_GRPC": mode, "VERIF_SKIP": ",".join(sorted(skip))}, 900)
            if done2:
                continue          # this call alone does not kill the process
            at = [p for p in prog2 if p["step"] >= 0]
            if not at:
                continue
            at = at[0]
            st = sc["steps"][at["step"]]
            a = st.get("a", {})
            calls = [e for e in ev2 if e.get("ev") == "rpc"]
            crash = {"ev": "crash", "i": at["step"], "rpc": st["act"], "k": a.get("k", "-"), "p": a.get("p", "-"),
                     "s": a.get("s", "-"), "via": at["via"], "out": "crash", "code": "process died", "n": 0,
                     "site": "?", "stack": _panic_text(out2),
                     "pre": calls[-1]["st"] if calls else {"acct": True, "gm": True, "gc": True}, "st": {}}
            m = re.search(r"^(berty\.tech/weshnet/v2[^\s(]*)", "\n".join(l for l in out2[out2.find("goroutine "):].splitlines()), re.M)
            if m:
                crash["site"] = m.group(1).replace("berty.tech/weshnet/v2", "")
            attributed = True
            crashes.setdefault(c["sid"], []).append(crash)
            skip |= _same_request_labels(scripts, st["act"], a, at["via"])
            ctx.extra.setdefault("crashes", []).append({"script": c["sid"], "step": at["step"], "via": at["via"], "rpc": st["act"], "k": a.get("k"), "p": a.get("p")})
        if not attributed and crashes:
            # earlier deaths were attributed (they are reported); this one does not reproduce in isolation
            ctx.extra["incomplete"] = "a driver death could not be attributed (in flight: %s); %d scripts not executed" % (
                [p["what"] for p in prog], len([s for s in todo if s["id"] not in blocks]))
            break
        if not attributed:
            raise vf.Infra("driver died and the death could not be attributed to a call (in flight: %s):\n%s" % (prog, _panic_text(out) or "\n".join(out.splitlines()[-30:])))
        todo = [s for s in todo if s["id"] not in blocks]
    for sid, crs in crashes.items():
        blocks.setdefault(sid, []).extend(crs)
    return blocks, deaths


# --------------------------------------------------------------------------- TLC verdicts
def _flatten(blocks):
    flat, owner = [], []
    for bid, evs in blocks:
        flat.append({"ev": "reset", "id": bid})
        owner.append((bid, -1))
        for j, e in enumerate(evs):
            flat.append(e)
            owner.append((bid, j))
    return flat, owner


def _collect(ctx, spec, blocks, name, tag, strict=False):
    """one TLC run in collect mode: every line the spec does not accept, as judged by TLC"""
    flat, owner = _flatten(blocks)
    d = ctx.sub("val_" + name)
    tp = os.path.join(d, "trace.ndjson")
    vf.write_ndjson(tp, flat)
    r = ctx.tlc(spec[0], spec[1], name=name, workers=1, count=False, timeout=1500, heap="8g",
                env={"VERIF_TRACE": tp, "VERIF_STRICT": "1" if strict else "0", "VERIF_COLLECT": "1"}, allow_violation=True)
    if r.rc != 0 or r.violated or r.error or r.printed.get("REJECTED"):
        raise vf.Infra("collect run of %s broke: %s %s\n%s" % (spec[0], r.violated, r.error, "\n".join(r.out.splitlines()[-30:])))
    out = []
    for b in r.printed.get(tag, []):
        bid, j = owner[b["at"] - 1]
        out.append({"id": bid, "at": j, "line": b["line"]})
    return out


def _state_tag(pre):
    return "".join(c for c, k in (("A", "acct"), ("M", "gm"), ("C", "gc")) if pre.get(k)) or "none"


def _needs_account():
    """the RPCs that work on the account group (read from the spec vocabulary; used for naming findings only)"""
    txt = open(os.path.join(vf.SPECS, "ServiceAPIDefs.tla")).read()
    m = re.search(r"NeedsAccount == \{(.*?)\}", txt, re.S)
    return set(re.findall(r'"(\w+)"', m.group(1))) if m else set()


def finding_key(line, events):
    """canonical key of a violation: call site + request shape, or call site + "account-group-deactivated"
    when the deactivated account group is the cause (the same request is answered while it is open)"""
    if line.get("ev") == "helper":
        return "%s:helper:%s:%s" % ("panic" if line["out"] == "panic" else "noerr", line["fn"], line["c"])
    kind = {"panic": "panic", "crash": "crash"}.get(line.get("out"), "noerr")
    rpc, shape = line["rpc"], (line["k"], line["p"], line["s"])
    pre = line.get("pre") or {}
    same = [e for e in events if e.get("ev") == "rpc" and e.get("rpc") == rpc and (e["k"], e["p"], e["s"]) == shape and e.get("pre")]
    if kind != "noerr" and not pre.get("acct", True):
        open_ok = any(e["pre"].get("acct") and e["out"] in ("ok", "err") for e in same)
        open_bad = any(e["pre"].get("acct") and e["out"] in ("panic", "crash") for e in same)
        static = rpc in _needs_account() or (rpc == "ActivateGroup" and line["k"] == "gc")
        if not open_bad and (open_ok or static):
            return "%s:%s:account-group-deactivated" % (kind, rpc)
    sh = "k=%s,p=%s" % (line["k"], line["p"]) + (",s=%s" % line["s"] if line["s"] not in ("-", "sink") else "")
    if kind == "noerr":
        return "noerr:%s:%s:%s" % (rpc, sh, _state_tag(pre))
    return "%s:%s:%s" % (kind, rpc, sh)


def _nontrivial(e):
    if e.get("ev") == "helper":
        return e["out"] != "ok"
    return e.get("out") != "ok" or (e.get("pre") is not None and e.get("st") is not None and
                                    {k: e["pre"].get(k) for k in ("acct", "gm", "gc")} != {k: e["st"].get(k) for k in ("acct", "gm", "gc")})


def run(ctx, replay=None):
    ov = ctx.overlay({PKG: FILES})
    built = {}

    def bg():
        try:
            built["bin"] = _build(ctx, ov)
        except Exception as ex:      # re-raised in the main thread
            built["err"] = ex
    th = threading.Thread(target=bg)
    th.start()
    try:
        if replay:
            rp = json.load(open(replay))
            scripts = [rp["script"]]
            ctx.seed = int(rp.get("seed", ctx.seed))     # same concretisation classes, same seed
        else:
            scripts = _gen(ctx)
    finally:
        th.join()
    if "err" in built:
        raise built["err"]
    binary = built["bin"]
    if not scripts:
        raise vf.Infra("no scripts generated")
    byid = {s["id"]: s for s in scripts}
    blocks, deaths = _drive(ctx, binary, scripts)
    missing = [s["id"] for s in scripts if s["id"] not in blocks]
    if missing and "incomplete" not in ctx.extra:
        raise vf.Infra("driver did not record scripts %s" % missing[:10])
    order = [(s["id"], blocks[s["id"]]) for s in scripts if s["id"] in blocks]
    allev = [e for _, evs in order for e in evs]
    # ---- the verdict: the property monitor, evaluated by TLC (the conformance pass runs beside it)
    flat, _ = _flatten(order)
    tp = os.path.join(ctx.sub("val_mon"), "all.ndjson")
    vf.write_ndjson(tp, flat)
    side = {}

    def conf_job():
        try:
            side["drift"] = _collect(ctx, CONF, order, "conf_collect", "DRIFT", strict=True)
        except Exception as ex:
            side["err"] = ex
    th = threading.Thread(target=conf_job)
    th.start()
    try:
        ok, info = ctx.validate_trace(MON[0], MON[1], tp, name="mon_accept", timeout=1500)
        bad = []
        if not ok:
            if "high" not in info:
                raise vf.Infra("monitor broke on the observed trace: %s" % info)
            bad = _collect(ctx, MON, order, "mon_collect", "BAD")
            if not bad:
                raise vf.Infra("monitor rejected the trace but listed no line: %s" % info)
    finally:
        th.join()
    badblocks = {b["id"] for b in bad}
    findings = collections.OrderedDict()
    for b in bad:
        k = finding_key(b["line"], allev)
        findings.setdefault(k, []).append(b)
    for k, bs in findings.items():
        b = bs[0]
        line = b["line"]
        sc = byid[b["id"]]
        step = line.get("i", 0)
        walk = sc["steps"][:sc["cfg"].get("walk", 0)]
        mini = {"id": 0, "cfg": {"kind": "replay", "walk": len(walk)}, "steps": walk + [sc["steps"][step]] if step >= len(walk) else sc["steps"][:step + 1]}
        if line.get("out") in ("panic", "crash"):
            what = "%s %s(%s) in state %s: %s at %s (%d occurrences)" % (
                "recovered panic in" if line["out"] == "panic" else "process death while serving",
                line.get("rpc") or line.get("fn"), json.dumps({x: line.get(x) for x in ("k", "p", "s", "c") if x in line}, sort_keys=True),
                _state_tag(line.get("pre") or {}) if line.get("ev") != "helper" else "-", line.get("code"), line.get("site"), len(bs))
        else:
            what = "%s(%s) in state %s answered %s where the property demands an error (%d occurrences)" % (
                line.get("rpc") or line.get("fn"), json.dumps({x: line.get(x) for x in ("k", "p", "s", "c") if x in line}, sort_keys=True),
                _state_tag(line.get("pre") or {}) if line.get("ev") != "helper" else "-", line.get("out"), len(bs))
        ctx.classify(k, what, {"script": mini, "observed": line, "occurrences": len(bs), "stack": line.get("stack")})
    ctx.extra["findings"] = {k: len(v) for k, v in findings.items()}
    good = [(bid, evs) for bid, evs in order if bid not in badblocks]
    ctx.traces_validated += len(good)
    # ---- conformance with the full model (drift only).  Lines the monitor rejected are not counted again.
    if "err" in side:
        raise side["err"]
    badat = {(b["id"], b["at"]) for b in bad}
    drift = [d for d in side["drift"] if (d["id"], d["at"]) not in badat]
    dkeys = collections.OrderedDict()
    for dline in drift:
        l = dline["line"]
        k = json.dumps({x: l.get(x) for x in ("ev", "rpc", "fn", "c", "k", "p", "s", "via", "out") if x in l} | {"pre": _state_tag(l.get("pre") or {})}, sort_keys=True)
        dkeys.setdefault(k, []).append(dline)
    for k, ds in dkeys.items():
        ctx.drift.append({"what": json.loads(k), "count": len(ds), "st": ds[0]["line"].get("st"), "code": ds[0]["line"].get("code")})
    if drift:
        vf.log("model drift: %d lines, %d distinct" % (len(drift), len(dkeys)))
    driftblocks = {d["id"] for d in drift}
    ctx.extra["conformant_traces"] = len([1 for bid, _ in good if bid not in driftblocks])
    ctx.extra["model_drift_lines"] = len(drift)
    # ---- measured coverage
    calls = [e for e in allev if e.get("ev") in ("rpc", "helper")]
    ctx.evaluations = len(calls)
    combos = set()
    nontriv = set()
    for e in calls:
        c = (e.get("rpc") or e.get("fn"), e.get("k"), e.get("p") or e.get("c"), e.get("s"), _state_tag(e.get("pre") or {}) if e["ev"] == "rpc" else "-")
        combos.add(c)
        if _nontrivial(e):
            nontriv.add(c)
    ctx.distinct_nontrivial = len(nontriv)
    ctx.extra["coverage"] = {
        "scripts_replayed": len(order), "calls": len(calls),
        "distinct_rpc_shape_state": len(combos),
        "rpcs": len({e["rpc"] for e in calls if e["ev"] == "rpc"}),
        "helpers": len({e["fn"] for e in calls if e["ev"] == "helper"}),
        "via_grpc": sum(1 for e in calls if e.get("via") == "grpc"),
        "outcomes": dict(collections.Counter(e["out"] for e in calls)),
        "states": sorted({_state_tag(e["pre"]) for e in calls if e["ev"] == "rpc" and e.get("pre")}),
        "driver_deaths": deaths,
        "concretisations": "bytes inside a shape class are drawn from VERIF_SEED (plain seeded fuzzing inside each class)",
    }
    ctx.extra["impl"] = {"reopenOldestWins": False}
    for bid, evs in order[:1] + order[-1:]:
        ctx.add_samples([{"script": bid, "kind": byid[bid]["cfg"].get("kind"),
                          "observed": [{k: e.get(k) for k in ("rpc", "fn", "c", "k", "p", "s", "via", "out", "code") if k in e} for e in evs[:6]]}], limit=4)
    if not replay:
        # listing RPCs with PAIRS of genuine event identifiers in every order (since after until etc.):
        # the (since, until, reverse) matrix of the C13 RPC driver, judged here only for "no panic"
        import grouplog_check
        grouplog_check.run_rpc_lists(ctx, prop="C19")
    ctx.assumptions += [
        "request shapes are the classes of ServiceAPIDefs.tla; bytes inside a class come from VERIF_SEED",
        "service = NewTestingProtocol (mocked IPFS/libp2p, in-memory datastore, mocked discovery); replication dial and credential flow HTTP leg end at a refused loopback connection",
        "a request object is never nil (a gRPC server always decodes one); nil applies to fields",
        "TLC 1.8.0 / CommunityModules and the Go toolchain are trusted",
    ]
    return ctx.finish(level="model_checking",
                      rule="scripts = for every walk of <= N activation/deactivation steps (or one odd-group join) TLC enumerates, every request shape of every RPC (state-preserving ones run back to back after the walk, state-changing ones alone) + every helper x input class; evaluations = calls made; non-trivial = distinct (rpc, shape, state) whose observed outcome was an error, a panic or a change of the open-group set",
                      exhaustive=False,
                      technique="TLA+ spec ServiceAPI.tla model-checked by TLC; TLC-enumerated request histories replayed on a real in-process service (handlers under recover + in-memory gRPC); recorded traces judged by TLC against the property monitor MonServiceAPI.tla (verdict) and the full spec TraceServiceAPI.tla (drift)")
