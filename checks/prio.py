"""priority queue clause of C15 (specs/PrioQueue.tla)"""
import vf

PKG = "internal/queue"


def run_part(ctx):
    quick = ctx.tier == "quick"
    defs = {"CtrOf": '[a |-> 1, b |-> 2, c |-> 2, d |-> 0]'}
    g = ctx.tlc("PrioQueue", "Gen_PrioQueue.cfg", name="gen_prio", defs=defs, workers=2,
                consts={"MaxLen": "5" if quick else "6"}, timeout=900, heap="8g")
    scripts = vf.scripts_from_tlc(g.printed.get("SCRIPT", []), limit=4000 if quick else 40000, rng=ctx.rng, start_id=0)
    rep, _ = ctx.instrument(["internal/queue/simple.go"])
    ov = ctx.overlay({PKG: ["vf_queue_verif_test.go", "vf_prio_verif_test.go"]}, replace=rep)
    events, _ = vf.run_driver(ctx, PKG, "^TestVerifPrioQueue$", ov, scripts, "prio",
                              env={"VERIF_PRIO_RANDOM": "50" if quick else "500"})
    acc, rejects = vf.validate_blocks(ctx, ("MonPrioQueue", "Mon_PrioQueue.cfg"), events, "prio")
    blocks = vf.split_traces(events)
    ctx.evaluations += len(blocks)
    ctx.distinct_nontrivial += sum(1 for _, evs in blocks if any(e["ev"] in ("next", "nextall") and e.get("ok") for e in evs))
    byid = {s["id"]: s for s in scripts}
    for rj in rejects:
        line = rj["info"].get("line", {})
        ctx.violation("real PriorityQueue breaks C15 at step %s: %s" % (rj["at"], line),
                      {"script": byid.get(rj["id"], {"id": rj["id"], "random": True}), "observed": rj["events"], "rejected_line": line})
    if blocks:
        ctx.add_samples([{"priority_queue_ops": blocks[0][1]}], limit=3)
