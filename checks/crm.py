"""Stand-alone development entry for the contact-request manager module: `bin/check CRM [--tier thorough]`.
Not registered in MANIFEST.json (the module is not a listed property); the coordinator hooks contactmgr.run_part
into the thorough tier of C07."""
import json
import contactmgr


def run(ctx, replay=None):
    scripts = None
    if replay:
        rp = json.load(open(replay))
        scripts = [rp["script"]] if "script" in rp else rp["scripts"]
    contactmgr.run_part(ctx, replay_scripts=scripts)
    return ctx.finish(level="model_checking",
                      rule="contact-request manager: every recorded trace of the real manager is a behaviour of ContactManager.tla (drift otherwise); design invariants evaluated on observed values are observations",
                      exhaustive=False, technique="TLC exhaustive on ContactManager.tla + GenContactManager walks replayed on the real contactRequestsManager + TraceContactManager strict conformance + MonContactManager")
