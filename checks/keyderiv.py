"""C11: specs/KeyDerivation.tla bound to pkg/secretstore (device_keystore_wrapper.go, keys_utils.go, secret_store.go)."""
import json, os
import vf
from ratchetstore import _par, _split_keep_reset, _selftest

PKG = "pkg/secretstore"
FILES = ["vf_world_verif_test.go", "vf_crashds_verif_test.go", "vf_crash_verif_test.go", "vf_keyderiv_verif_test.go"]
MON = ("MonKeyDerivation", "Mon_KeyDerivation.cfg")
CONF = ("TraceKeyDerivation", "Trace_KeyDerivation.cfg")


def _expect_violation(ctx, name, consts, allowed):
    r = ctx.tlc("KeyDerivation", "MC_KeyDerivation.cfg", name=name, consts=consts, allow_violation=True, workers=2, timeout=900)
    if r.violated not in allowed:
        raise vf.Infra("model %s: expected a violation of %s, got %s" % (name, allowed, r.violated))
    ctx.extra.setdefault("design_level", []).append({"config": consts, "violates": r.violated})


def _model(ctx):
    quick = ctx.tier == "quick"
    ops = "4" if quick else "5"
    jobs = [lambda: ctx.tlc_expect_ok("KeyDerivation", "MC_KeyDerivation.cfg", name="mc_3stores", workers=2, consts={"MaxOps": ops}, timeout=2400),
            # deriving the member key from the account key instead of the proof key keeps every C11 clause: no alarm expected
            lambda: ctx.tlc_expect_ok("KeyDerivation", "MC_KeyDerivation.cfg", name="mc_member_from_account", workers=2,
                                      consts={"MaxOps": "4", "MemberFromProof": "FALSE"}, timeout=2400),
            lambda: _expect_violation(ctx, "mc_neg_cache", {"CacheByPeer": "FALSE"}, ("C11_Contact",)),
            lambda: _expect_violation(ctx, "mc_neg_exists", {"CheckExists": "FALSE"}, ("C11_Import", "C11_Stable", "C11_Contact", "C11_Member")),
            lambda: _expect_violation(ctx, "mc_neg_equal", {"CheckEqual": "FALSE"}, ("C11_Import",))]
    if not quick:
        jobs.append(lambda: ctx.tlc_expect_ok("KeyDerivation", "MC_KeyDerivation.cfg", name="mc_2groups", workers=2,
                                              consts={"MaxOps": "4", "Groups": '{"g1","g2"}'}, timeout=2400))
    _par(jobs, 2)


def _interesting(h):
    acts = [s["act"] for s in h]
    return len(set(acts)) >= 2 or "import" in acts


def _scripts(ctx):
    quick = ctx.tier == "quick"
    out = []

    def gen(ln, limit, groups='{"g1"}'):
        r = ctx.tlc("GenKeyDerivation", "Gen_KeyDerivation.cfg", name="gen_L%d_%d" % (ln, len(groups)), workers=2 if quick else 4,
                    consts={"MaxOps": str(ln), "Groups": groups}, timeout=2400, heap="8g")
        hs = [h for h in r.printed.get("SCRIPT", []) if _interesting(h)]
        return [s["steps"] for s in vf.scripts_from_tlc(hs, limit=limit, rng=ctx.rng)]

    def sim(ln, num, stores='{"S1","S2","S3"}', groups='{"g1","g2"}'):
        r = ctx.tlc("GenKeyDerivation", "Gen_KeyDerivation.cfg", name="sim_L%d" % ln, workers=1, simulate="num=%d" % num, depth=ln + 2,
                    consts={"MaxOps": str(ln), "Groups": groups, "Stores": stores, "MaxKey": "40"}, timeout=2400, heap="8g")
        hs = [h for h in r.printed.get("SCRIPT", []) if len(h) == ln]
        return [s["steps"] for s in vf.scripts_from_tlc(hs, limit=num, rng=ctx.rng)]

    if quick:
        jobs = [lambda: gen(3, None), lambda: gen(4, 1200), lambda: sim(7, 300)]
    else:
        jobs = [lambda: gen(3, None), lambda: gen(4, None), lambda: sim(5, 12000), lambda: sim(8, 4000, '{"S1","S2","S3","S4"}')]
    for part in _par(jobs, 2):
        out += part
    seen, scripts = set(), []
    for st in out:
        k = json.dumps(st, sort_keys=True)
        if k in seen:
            continue
        seen.add(k)
        scripts.append({"id": len(scripts), "cfg": {"mode": "script"}, "steps": st})
    nscript = len(scripts)
    # concretisation loop of the abstract script "derive both ways": blocks of 8 fresh accounts, all 28 pairs both ways
    npairs = 2000 if quick else 20000
    for _ in range((npairs + 27) // 28):
        scripts.append({"id": len(scripts), "cfg": {"mode": "pairs", "accounts": 8}, "steps": []})
    return scripts, nscript


def _validate(ctx, blocks, name):
    """monitor (verdict) then conformance (drift) over a list of (id, events-with-reset) blocks"""
    d = ctx.sub("val_" + name)
    cur, rejects, rounds = list(blocks), [], 0
    while cur:
        rounds += 1
        flat, index = [], []
        for bid, evs in cur:
            index.append((len(flat), bid))
            flat.extend(evs)
        tp = os.path.join(d, "t%d.ndjson" % rounds)
        vf.write_ndjson(tp, flat)
        ok, info = ctx.validate_trace(MON[0], MON[1], tp, name="%s_mon%d" % (name, rounds), timeout=1800)
        if ok:
            break
        if "high" not in info:
            raise vf.Infra("monitor broke on observed trace: %s" % info)
        bi = max(i for i, (start, _) in enumerate(index) if start <= info["high"])
        bid, evs = cur[bi]
        rejects.append({"id": bid, "info": info, "events": evs, "at": info["high"] - index[bi][0]})
        cur = cur[:bi] + cur[bi + 1:]
        if len(rejects) >= 3:
            cur = []
    ctx.traces_validated += len(cur)
    left, nd = list(cur), 0
    while left and nd < 3:
        flat, index = [], []
        for bid, evs in left:
            index.append((len(flat), bid))
            flat.extend(evs)
        tp = os.path.join(d, "strict%d.ndjson" % nd)
        vf.write_ndjson(tp, flat)
        ok, info = ctx.validate_trace(CONF[0], CONF[1], tp, name="%s_conf%d" % (name, nd), strict=True, timeout=1800)
        if ok:
            break
        nd += 1
        rec = {"trace": name, "info": {k: info.get(k) for k in ("high", "line", "invariant")}}
        ctx.drift.append(rec)
        vf.log("model drift (full-spec conformance) in", name, str(rec)[:400])
        if "high" not in info:
            break
        bi = max(i for i, (start, _) in enumerate(index) if start <= info["high"])
        left = left[:bi] + left[bi + 1:]
    ctx.extra["conformant_traces"] = ctx.extra.get("conformant_traces", 0) + (len(left) if nd < 3 else 0)
    return rejects


def run(ctx, replay=None):
    if replay and json.load(open(replay)).get("family") == "keysched":
        import keysched
        keysched.run_part(ctx)
        return ctx.finish(level="model_checking", rule="lock-level schedules of concurrent first uses (replay)", exhaustive=False,
                          technique="controlled schedules on the real keystore wrapper; TLC trace validation against MonKeySched")
    ov = ctx.overlay({PKG: FILES})
    if replay:
        scripts, nscript = [json.load(open(replay))["script"]], 1
    else:
        _model(ctx)
        scripts, nscript = _scripts(ctx)
    events, out = vf.run_driver(ctx, PKG, "^TestVerifKeyDeriv$", ov, scripts, "keyderiv", timeout=2400)
    byid = {s["id"]: s for s in scripts}
    blocks = _split_keep_reset(events)
    if {b for b, _ in blocks} != set(byid):
        raise vf.Infra("driver did not record every script")
    blocks.sort(key=lambda b: b[0])
    if not replay:
        def corrupt11(b):
            hit = False
            for e in b:
                if e.get("ev") == "contact" and not hit:
                    e["grp"] = 999999
                    hit = True
            return b if hit else None
        cand = [evs for b, evs in blocks if byid[b]["cfg"]["mode"] == "pairs"]
        if cand:
            _selftest(ctx, MON, "c11_asymmetric_group", cand[0], corrupt11)
    nchunk = 3 if ctx.tier == "quick" else 6
    chunks = [blocks[i::nchunk] for i in range(nchunk)]
    for rejects in _par([(lambda i=i, c=c: _validate(ctx, c, "c11_%d" % i)) for i, c in enumerate(chunks) if c], 3):
        for rj in rejects:
            sc = byid[rj["id"]]
            line = rj["info"].get("line", {})
            what = "real secret store breaks C11 in script %s at line %s: observed %s" % (rj["id"], rj["at"], json.dumps(line, sort_keys=True)[:600])
            ctx.violation(what, {"script": sc, "observed": rj["events"][:200], "rejected_line": line, "step": rj["at"]})
    pairs = sum(1 for _, evs in blocks for e in evs if e.get("ev") == "contact")
    imports = sum(1 for _, evs in blocks for e in evs if e.get("ev") == "import")
    accounts = sum(1 for _, evs in blocks for e in evs if e.get("ev") == "account")
    ctx.evaluations += len(blocks)
    ctx.distinct_nontrivial += sum(1 for b, evs in blocks if len({e["ev"] for e in evs}) >= 4)
    for b, evs in blocks:
        if byid[b]["cfg"]["mode"] == "script" and len({e["ev"] for e in evs}) >= 5 and len(ctx.samples) < 2:
            ctx.add_samples([{"script": byid[b]["steps"], "observed": evs}], limit=2)
    ctx.extra["bounds"] = {"scripts": nscript, "pair_blocks": len(scripts) - nscript, "contact_derivations": pairs,
                           "import_attempts": imports, "account_reads": accounts}
    ctx.extra["notes"] = ["GetAccountProofPublicKey returns the public key of the account key, not of the proof key (conformance constant ProofPubIsAccount = TRUE); outside the C11 statement, reported as an observation"]
    ctx.assumptions += ["symbolic keys: equalities / inequalities between observed byte strings are what is checked; the strength of X25519 / HKDF is outside",
                        "which account / proof key a store holds is read from the keystore namespace of the in-memory datastore supplied by the driver",
                        "import on a store that holds only a proof key (it derived a member key and nothing else) is left open by the property statement; the current code refuses it",
                        "TLC 1.8.0 and the Go toolchain trusted"]
    if not replay:
        # concurrent FIRST uses of a fresh store under controlled lock-level schedules (MonKeySched.tla)
        import keysched
        keysched.run_part(ctx)
    return ctx.finish(level="model_checking",
                      rule="scripts = every call order TLC enumerates up to 3-4 operations over 3 interchangeable stores (stores taken into use in a fixed order), -simulate walks beyond, plus blocks of 8 fresh accounts deriving all 28 pairs both ways; non-trivial = blocks with at least 4 different kinds of calls",
                      exhaustive=False,
                      technique="TLA+ spec KeyDerivation.tla model-checked by TLC (and shown to break with the other value of each implementation choice); TLC-generated call orders replayed on real secret stores with fresh random accounts; recordings checked by TLC against MonKeyDerivation.tla (verdict) and TraceKeyDerivation.tla (one-to-one binding of observed values to symbolic terms)")
