"""C15: specs/Queue.tla (SimpleQueue at gate granularity) + PrioQueue, bound to internal/queue."""
import json, os
import vf

PKG = "internal/queue"
MON = ("MonQueue", "Mon_Queue.cfg")
DRV = "^TestVerifQueueSched$"

LABELS = {
    "start": "start", "done": "done", "c_cancel": "c_cancel", "blocked:select": "w_parked",
    "lock:simple.go:SimpleQueue.Add:lock#1": "a_lock",
    "simple.go:SimpleQueue.Add:selectnb#1": "a_sel",
    "lock:simple.go:SimpleQueue.WaitForItem:lock#1": "w_lock",
    "simple.go:SimpleQueue.WaitForItem:select#1": "w_sel",
    "lock:simple.go:SimpleQueue.WaitForItem:lock#2": "w_relock",
}


def tla_items(prods):
    return "[" + ", ".join('%s |-> <<%s>>' % (p, ", ".join('"%s"' % i for i in its)) for p, its in sorted(prods.items())) + "]"


def scenarios(tier):
    sc = [
        ({"p1": ["a"]}, 1, False), ({"p1": ["a"]}, 1, True), ({"p1": ["a"]}, 2, True),
        ({"p1": ["a", "b"]}, 2, False), ({"p1": ["a"], "p2": ["b"]}, 2, False),
        ({"p1": ["a", "b"]}, 2, True),
    ]
    if tier != "quick":
        sc += [({"p1": ["a"], "p2": ["b"]}, 2, True),
               ({"p1": ["a", "b"], "p2": ["c"]}, 3, False), ({"p1": ["a", "b", "c"]}, 3, False),
               ({"p1": ["a", "b"], "p2": ["c"]}, 3, True), ({"p1": ["a"], "p2": ["b"]}, 3, True)]
    return sc


def gen(ctx):
    scs = scenarios(ctx.tier)
    defs = {"Scenarios": "<<" + ", ".join("[items |-> %s, wanted |-> %d, cancel |-> %s]" % (tla_items(p), w, "TRUE" if c else "FALSE")
                                           for (p, w, c) in scs) + ">>"}
    scripts = []
    design = {}
    for sb in ("TRUE", "FALSE"):
        c2 = {"SignalBuffered": sb}
        if sb == "TRUE" or ctx.tier != "quick":
            # design level: the buffered variant must satisfy C15; the unbuffered one documents the lost wake-up
            r = ctx.tlc("Queue", "MC_Queue.cfg", name="mc_" + sb, consts=c2, defs=defs, allow_violation=True, workers=4)
            design["buffered" if sb == "TRUE" else "unbuffered"] = r.violated or "ok"
            if sb == "TRUE" and not r.ok:
                raise vf.Infra("Queue.tla with a buffered signal must satisfy C15 (spec bug?): %s" % r.violated)
        g = ctx.tlc("Queue", "Gen_Queue.cfg", name="gen_" + sb, consts=c2, defs=defs, workers=1, timeout=1500, heap="8g")
        for h in g.printed.get("SCRIPT", []):
            prods, wanted, cancel = scs[h[-1]["si"] - 1]
            scripts.append(({"producers": prods, "wanted": wanted, "cancel": cancel, "model": sb, "scen": h[-1]["si"]}, h))
    # deduplicate on the schedule (the two model variants share most schedules)
    seen, out = set(), []
    for cfg, h in scripts:
        key = json.dumps([cfg["scen"], [s["d"] for s in h if s["act"] == "step"]])
        if key in seen:
            continue
        seen.add(key)
        out.append({"id": len(out), "cfg": cfg, "steps": [s for s in h if s["act"] == "step"], "expect": h[-1]})
    ctx.extra["design_level"] = design
    # model-independent schedules (see vf.blind_schedules)
    nb = 400 if ctx.tier == "quick" else 4000
    for si, (prods, wanted, cancel) in enumerate(scs):
        threads = sorted(prods) + ["cons"] + (["cancel"] if cancel else [])
        for seq in vf.blind_schedules(ctx.rng, threads, nb, 10 + 5 * len(threads)):
            out.append({"id": len(out), "cfg": {"producers": prods, "wanted": wanted, "cancel": cancel, "model": "blind", "scen": si + 1},
                        "steps": [{"act": "step", "d": t} for t in seq], "expect": {}})
    ctx.extra["blind_schedules"] = nb * len(scs)
    return out


def run_simple(ctx, replay=None):
    rep, skel = ctx.instrument(["internal/queue/simple.go"])
    ov = ctx.overlay({PKG: ["vf_queue_verif_test.go", "vf_prio_verif_test.go"]}, replace=rep)
    labels = set("lock:" + o["label"] if o["kind"] == "lock" else o["label"] for o in skel.get("simple.go", []))
    unknown = sorted(l for l in labels if l not in LABELS and ":SimpleQueue.Pop:" not in l)
    missing = sorted(l for l in LABELS if ":" in l and l not in labels and not l.startswith("blocked"))
    if unknown or missing:
        ctx.drift.append({"skeleton": "simple.go", "unknown_labels": unknown, "missing_labels": missing})
    if replay:
        rp = json.load(open(replay))
        scripts = [rp["script"]]
    else:
        scripts = gen(ctx)
    cap = 12000 if ctx.tier == "quick" else 80000
    ctx.extra["behaviours_enumerated"] = len(scripts)
    if len(scripts) > cap:
        scripts = ctx.rng.sample(scripts, cap)
    binary = ctx.go_test_compile(PKG, ov, name="queue")
    events = ctx.run_sharded(binary, DRV, PKG, scripts, "queue", shards=4)
    byid = {s["id"]: s for s in scripts}
    def to_pc(e):
        if e.get("ev") == "step":
            e = dict(e, topc=LABELS.get(e.get("to"), "?" + str(e.get("to"))))
        return e
    # conformance against the variant of the model that matches the tree: try buffered, then unbuffered
    scs = scenarios(ctx.tier)
    defs = {"Scenarios": "<<" + ", ".join("[items |-> %s, wanted |-> %d, cancel |-> %s]" % (tla_items(p), w, "TRUE" if c else "FALSE")
                                           for (p, w, c) in scs) + ">>"}
    acc, rejects = vf.validate_blocks(ctx, MON, events, "queue", conf=("TraceQueue", "Trace_Queue.cfg"), defs=defs,
                                      conf_consts={"SignalBuffered": "TRUE"}, conf_map=to_pc)
    if ctx.drift and not replay:
        d0 = list(ctx.drift)
        del ctx.drift[:]
        ctx.extra.pop("conformant_traces", None)
        vf.validate_blocks(ctx, MON, events, "queue_unbuf", conf=("TraceQueue", "Trace_Queue.cfg"), defs=defs,
                           conf_consts={"SignalBuffered": "FALSE"}, conf_map=to_pc, max_rejects=1)
        ctx.traces_validated -= 0
        ctx.extra["impl_variant"] = "unbuffered" if not ctx.drift else "neither (drift)"
        if ctx.drift:
            ctx.drift[:0] = d0
    else:
        ctx.extra["impl_variant"] = "buffered"
    ctx.evaluations += len(scripts)
    blocks = dict(vf.split_traces(events))
    # distinct real traces (thread, from, to) and how many are non-trivial (someone parked or failed a lock)
    distinct = set()
    nontrivial = set()
    for bid, evs in blocks.items():
        key = json.dumps([[e.get("t"), e.get("from"), e.get("to")] for e in evs if e["ev"] == "step"])
        distinct.add(key)
        if any(str(e.get("to", "")).startswith("blocked") or e.get("p") is False for e in evs if e["ev"] == "step"):
            nontrivial.add(key)
    ctx.distinct_nontrivial += len(nontrivial)
    ctx.extra["distinct_real_traces"] = len(distinct)
    found = False
    for rj in rejects:
        sc = byid[rj["id"]]
        line = rj["info"].get("line", {})
        sched = [s["d"] for s in sc["steps"]]
        if line.get("ev") == "final" and line.get("cons") == "blocked" and line.get("list"):
            key = "lost-wakeup:SimpleQueue.Add-nonblocking-send-vs-WaitForItem-select"
            what = "consumer parked in WaitForItem's select while the queue holds %s (schedule %s)" % (line.get("list"), " ".join(sched))
        else:
            key = "queue:" + json.dumps(line, sort_keys=True)[:200]
            what = "real SimpleQueue breaks C15 at step %s: %s" % (rj["at"], json.dumps(line, sort_keys=True)[:400])
        ctx.classify(key, what, {"script": sc, "observed": rj["events"], "rejected_line": line})
    for s in scripts[:1]:
        ctx.add_samples([{"scenario": s["cfg"], "schedule": [x["d"] for x in s["steps"]], "observed": blocks.get(s["id"], [])[-1:]}], limit=2)
    return scripts, blocks


def run(ctx, replay=None):
    run_simple(ctx, replay)
    import prio
    prio.run_part(ctx)
    ctx.assumptions += ["interleavings are exhaustive at the instrumented synchronisation operations (lock, channel op, select) only",
                        "parked-in-select is read from the Go runtime's goroutine wait reason"]
    return ctx.finish(level="model_checking",
                      rule="every complete behaviour (thread schedule up to quiescence) of Queue.tla for the listed scenarios, both signal variants, replayed on the instrumented real SimpleQueue; non-trivial = a thread parked in select or failed a TryLock; priority queue: all operation sequences up to the bound",
                      exhaustive=True,
                      technique="TLA+ gate-level spec Queue.tla model-checked by TLC; every TLC behaviour replayed as a controlled schedule on the real queue; recorded traces checked by TLC against MonQueue")
