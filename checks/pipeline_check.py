"""C08: specs/MessagePipeline.tla bound to store_message.go + internal/queue through the cooperative scheduler."""
import json, os
import vf

PKG = "."
MON = ("MonPipeline", "Mon_Pipeline.cfg")
DRV = "^TestVerifPipelineSched$"
DEVOF = {"a1": "d1", "a2": "d1", "a3": "d1", "a4": "d1", "b1": "d2", "b2": "d2"}
CTROF = {"a1": 1, "a2": 2, "a3": 3, "a4": 4, "b1": 1, "b2": 2}
FUNCS = ["MessageStore.processMessageLoop", "MessageStore.getOrCreateDeviceCache", "MessageStore.ProcessMessageQueueForDevicePK",
         "MessageStore.processDeviceMessagesInQueue", "MessageStore.addToMessageQueue", "MessageStore.CacheSizeForDevicePK"]


def S(arr, regs, known, cancel=False, win=0, regat=None, kcancel=False):
    return dict(arr=arr, regs=regs, known=known, cancel=cancel, win=win, regat=regat or {}, kcancel=kcancel)


def scenarios(tier):
    s = [
        S(["a1"], ["d1"], []),                 # one message, key registered at any moment
        S(["a1", "a2"], ["d1"], []),           # two messages in order
        S(["a2", "a1"], ["d1"], []),           # out of order
        S(["a1", "b1"], ["d1"], ["d2"]),       # two senders, one known from the start
        S(["a1"], ["d1"], [], True),           # with cancellation
        S(["a1", "a2"], [], ["d1"]),           # key known from the start
        S(["a1", "b1"], ["d1", "d2"], []),     # two registrations
        # ratchet window 2 (receiver store with PreComputedKeysCount = 2): a message that overtakes its predecessors
        # fails although the key is known, goes back to the device queue and must be retried after the next opens
        S(["a3", "a1"], [], ["d1"], win=2),    # a3 opens once a1 has been opened
        S(["a4", "a1", "a2"], [], ["d1"], win=2),   # a4 fails twice
        S(["a3", "a1"], ["d1"], [], win=2),    # the same with the key registered at any moment
        S(["a4", "a1"], [], ["d1"], win=2),    # a4 legitimately stays parked (still beyond the window)
        # late joiner: the sender announced its chain key after sealing a1, so a1 can never be opened - the messages
        # parked behind it must be released all the same
        S(["a1", "a2"], ["d1"], [], regat={"d1": 1}),
        S(["a2", "a1", "a3"], ["d1"], [], regat={"d1": 1}),
        S(["a1", "a2"], [], ["d1"], regat={"d1": 1}),
        # the caller of ProcessMessageQueueForDevicePK has its own context, cancelled at any moment: the store lives
        # on, everything parked must still be handed over (thread "kc"; only the blind schedules move it early)
        S(["a1", "a2"], ["d1"], [], kcancel=True),
        S(["a2", "a1", "a3"], ["d1"], [], kcancel=True),
    ]
    if tier != "quick":
        s += [S(["a1", "a2", "a3"], ["d1"], []), S(["a3", "a1", "a2"], ["d1"], []), S(["a1", "b1", "a2"], ["d1", "d2"], []),
              S(["a1", "a2"], ["d1"], [], True), S(["b1", "a1", "b2"], ["d1"], ["d2"])]
    return s


def tla_set(xs):
    return "{" + ", ".join('"%s"' % x for x in xs) + "}"


def tla_scen(s):
    ra = s.get("regat") or {}
    regat = ("[" + ", ".join('%s |-> %d' % kv for kv in sorted(ra.items())) + "]") if ra else "[d \\in {} |-> 0]"
    return '[arr |-> <<%s>>, regs |-> %s, known |-> %s, cancel |-> %s, win |-> %d, regat |-> %s]' % (
        ", ".join('"%s"' % a for a in s["arr"]), tla_set(s["regs"]), tla_set(s["known"]), "TRUE" if s["cancel"] else "FALSE", s.get("win", 0), regat)


DEFS0 = {"DevOf": "[" + ", ".join('%s |-> "%s"' % kv for kv in DEVOF.items()) + "]",
         "CtrOf": "[" + ", ".join('%s |-> %d' % kv for kv in CTROF.items()) + "]"}


def gen(ctx, scs=None, design_level=True):
    scs = scs or scenarios(ctx.tier)
    quick = ctx.tier == "quick"
    alldefs = dict(DEFS0, Scenarios="<<" + ", ".join(tla_scen(s) for s in scs) + ">>")
    design = {}
    if not design_level:
        return _gen_scripts(ctx, scs, alldefs, quick, exhaustive_first=False)
    for pul in ("TRUE", "FALSE"):
        r = ctx.tlc("MessagePipeline", "MC_MessagePipeline.cfg", name="mc_pul" + pul, consts={"ParkUnderLock": pul}, defs=alldefs,
                    allow_violation=True, workers=4, timeout=1500)
        design["park_under_lock" if pul == "TRUE" else "park_after_unlock"] = r.violated or "ok"
        if pul == "TRUE" and not r.ok:
            raise vf.Infra("MessagePipeline.tla (park under lock, whole device queue handed back) must satisfy C08: %s" % r.violated)
    r = ctx.tlc("MessagePipeline", "MC_MessagePipeline.cfg", name="mc_requeue_one", consts={"RequeueAll": "FALSE"}, defs=alldefs,
                allow_violation=True, workers=4, timeout=1500, count=False)
    design["requeue_lowest_only"] = r.violated or "ok"
    if r.ok:
        raise vf.Infra("model self-test: handing back only the lowest-counter message should strand a late joiner's messages in MessagePipeline.tla")
    ctx.extra["design_level"] = design
    return _gen_scripts(ctx, scs, alldefs, quick)


def _gen_scripts(ctx, scs, alldefs, quick, exhaustive_first=True):
    scripts = []
    per = 2500 if quick else 25000
    if not exhaustive_first:
        per = 600 if quick else 6000
    for pul in ("TRUE", "FALSE"):
        g = ctx.tlc("MessagePipeline", "Gen_MessagePipeline.cfg", name="sim_pul" + pul, consts={"ParkUnderLock": pul}, defs=alldefs,
                    workers=1, simulate="num=%d" % per, depth=300, timeout=1500, heap="8g")
        scripts += [(pul, h) for h in g.printed.get("SCRIPT", [])]
    # exhaustive for the smallest scenario
    if exhaustive_first:
        g = ctx.tlc("MessagePipeline", "Gen_MessagePipeline.cfg", name="gen_s0", consts={"ParkUnderLock": "FALSE"},
                    defs=dict(DEFS0, Scenarios="<<" + tla_scen(scs[0]) + ">>"), workers=1, timeout=1500, heap="8g")
        for h in g.printed.get("SCRIPT", []):
            h[-1]["si"] = 1
            scripts.append(("FALSE", h))
    seen, out = set(), []
    for pul, h in scripts:
        si = h[-1]["si"]
        key = json.dumps([si, [s["d"] for s in h if s["act"] == "step"]])
        if key in seen:
            continue
        seen.add(key)
        cfg = dict(scs[si - 1], scen=si, devof=DEVOF, ctrof=CTROF, model_park_under_lock=pul)
        out.append({"id": len(out), "cfg": cfg, "steps": [s for s in h if s["act"] == "step"], "expect": h[-1]})
    # model-independent schedules (vf.blind_schedules)
    nb = 200 if quick else 3000
    if not exhaustive_first:
        nb = 120 if quick else 1500
    for si, sc in enumerate(scs):
        threads = ["arr", "loop"] + ["k_" + d for d in sorted(sc["regs"])] + (["cancel"] if sc["cancel"] else []) + (["kc"] if sc.get("kcancel") else [])
        for seq in vf.blind_schedules(ctx.rng, threads, nb, 20 + 8 * len(threads)):
            out.append({"id": len(out), "cfg": dict(sc, scen=si + 1, devof=DEVOF, ctrof=CTROF, model_park_under_lock="blind"),
                        "steps": [{"act": "step", "d": t} for t in seq], "expect": {}})
    ctx.extra["blind_schedules"] = nb * len(scs)
    return out


def to_pc(e):
    """gate label of the recorded step -> pc value of MessagePipeline.tla (depends on the thread)"""
    if e.get("ev") != "step":
        return e
    t, to = e.get("t", ""), str(e.get("to", ""))
    if to in ("done", "start", "k_reg", "c_cancel", "kc_cancel"):
        pc = to
    elif to.startswith("blocked:"):
        pc = "w_parked"
    elif "SimpleQueue.WaitForItem:lock#1" in to:
        pc = "w_lock"
    elif "SimpleQueue.WaitForItem:lock#2" in to:
        pc = "w_relock"
    elif "SimpleQueue.WaitForItem:select" in to:
        pc = "w_sel"
    elif "getOrCreateDeviceCache:lock" in to:
        pc = "G1"
    elif "PriorityQueue.Add:lock" in to:
        pc = "PA"
    elif "PriorityQueue.NextAll:lock" in to:
        pc = "PF" if t == "loop" else "P2"
    elif "PriorityQueue.Next:lock" in to:
        pc = "P2"
    elif "ProcessMessageQueueForDevicePK:lock" in to:
        pc = "P1"
    elif "SimpleQueue.Add:lock" in to:
        pc = {"arr": "a_lock", "loop": "FA_lock"}.get(t, "KA_lock")
    elif "SimpleQueue.Add:selectnb" in to:
        pc = {"arr": "a_sel", "loop": "FA_sel"}.get(t, "KA_sel")
    else:
        pc = "?" + to
    return dict(e, topc=pc)


def run_retry_part(ctx):
    """C02 at the store layer ("provided a message that fails is retried after others have been opened"): the
    ratchet-window and late-joiner scenarios of the message pipeline only, judged by MonPipeline.tla; violations are
    reported under the calling property"""
    scs = [s for s in scenarios(ctx.tier) if s.get("win") or s.get("regat")]
    return run(ctx, None, scs=scs, part="retry")


def run(ctx, replay=None, scs=None, part=None):
    rep, skel = ctx.instrument(["store_message.go", "internal/queue/simple.go", "internal/queue/priority.go"],
                               funcs={"store_message.go": FUNCS})
    ov = ctx.overlay({PKG: ["vf_pipeline_verif_test.go"]}, replace=rep)
    if replay:
        scripts = [json.load(open(replay))["script"]]
    else:
        scripts = gen(ctx, scs, design_level=part is None)
    cap = 5000 if ctx.tier == "quick" else 60000
    if part:
        cap = 1500 if ctx.tier == "quick" else 15000
    ctx.extra["behaviours_generated"] = len(scripts)
    if len(scripts) > cap:
        scripts = ctx.rng.sample(scripts, cap)
    binary = ctx.go_test_compile(PKG, ov, name="pipeline", timeout=2400)
    events = ctx.run_sharded(binary, DRV, PKG, scripts, "pipeline", shards=6 if ctx.tier == "quick" else 12, chunk=400, timeout=1500)
    byid = {s["id"]: s for s in scripts}
    scs = scs or scenarios(ctx.tier)
    cdefs = dict(DEFS0, Scenarios="<<" + ", ".join(tla_scen(x) for x in scs) + ">>")
    acc, rejects = vf.validate_blocks(ctx, MON, events, "pipeline", conf=("TracePipeline", "Trace_Pipeline.cfg"), defs=cdefs,
                                      conf_consts={"ParkUnderLock": "TRUE", "SignalBuffered": "TRUE", "RequeueAll": "TRUE"}, conf_map=to_pc)
    ctx.evaluations += len(scripts)
    blocks = dict(vf.split_traces(events))
    distinct, nontrivial = set(), set()
    for bid, evs in blocks.items():
        key = json.dumps([[e.get("t"), e.get("from"), e.get("to")] for e in evs if e["ev"] == "step"])
        distinct.add(key)
        if any(e.get("ncached", 0) > 0 for e in evs if e["ev"] == "step"):
            nontrivial.add(key)
    ctx.distinct_nontrivial += len(nontrivial)
    ctx.extra["distinct_real_traces"] = len(distinct)
    for rj in rejects:
        sc = byid[rj["id"]]
        line = rj["info"].get("line", {})
        sched = " ".join(s["d"] for s in sc["steps"])
        if line.get("ev") == "final" and not line.get("atgate") and (line.get("parked") or line.get("inqueue")):
            stuck = line.get("parked") or line.get("inqueue")
            key = "stranded:park-after-unlock-vs-ProcessMessageQueueForDevicePK" if line.get("parked") else "stranded:inqueue"
            what = "message(s) %s stay parked although their sender's chain key is registered (known=%s, delivered=%s; schedule %s)" % (
                stuck, line.get("known"), line.get("delivered"), sched)
        elif line.get("ev") == "final" and line.get("atgate"):
            key = "deadlock:" + ",".join(line.get("atgate"))
            what = "pipeline deadlock: %s (schedule %s)" % (line.get("threads"), sched)
        else:
            key = "pipeline:" + json.dumps(line, sort_keys=True)[:200]
            what = "message pipeline breaks %s at step %s: %s" % (ctx.prop, rj["at"], json.dumps(line, sort_keys=True)[:400])
        if part:
            ctx.violation("store layer (%s): %s" % (part, what), {"script": sc, "observed": rj["events"], "rejected_line": line, "family": "pipeline-" + part})
        else:
            ctx.classify(key, what, {"script": sc, "observed": rj["events"], "rejected_line": line})
    for s in scripts[:1]:
        ctx.add_samples([{"scenario": {k: s["cfg"].get(k) for k in ("arr", "regs", "known", "cancel", "win", "regat")},
                          "schedule": [x["d"] for x in s["steps"]], "observed_final": blocks.get(s["id"], [])[-1:]}], limit=2)
    if part:
        ctx.extra["store_layer_" + part] = {"scenarios": len(scs), "schedules": len(scripts)}
        return None
    ctx.assumptions += ["hand-built MessageStore (real secret store, queues, event bus; no orbit-db): entries are fed through addToMessageQueue as the store's subscriber does",
                        "scenarios with win=2 exercise the retry of a message that overtook its predecessors beyond the ratchet window (C02's formula); the other scenarios stay inside the default window; interleavings at lock/channel operations only"]
    return ctx.finish(level="model_checking",
                      rule="complete behaviours of MessagePipeline.tla (both parking variants; exhaustive for the one-message scenario, -simulate walks to quiescence for the others) replayed as imposed schedules on the real pipeline; non-trivial = at least one message was parked in a device cache",
                      exhaustive=False,
                      technique="TLA+ gate-level spec MessagePipeline.tla model-checked by TLC; TLC behaviours replayed as controlled schedules on the real code; TLC trace validation against MonPipeline")
