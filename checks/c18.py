import framing


def run(ctx, replay=None):
    return framing.run(ctx, replay)
