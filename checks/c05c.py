"""Stand-alone development entry for C05 part (c) (completeness of chain-key distribution): `bin/check C05c`.
Not registered in MANIFEST.json; the registered check C05 (checks/c05.py) calls keydist.run_part_c as one of its parts."""
import json
import keydist


def run(ctx, replay=None):
    info = {"parts": {}, "rules": [], "techniques": [], "design_level": {}}
    keydist.run_part_c(ctx, info, json.load(open(replay)) if replay else None)
    ctx.extra["parts"] = info["parts"]
    ctx.extra["design_level"] = info["design_level"]
    ctx.assumptions += keydist.ASSUMPTIONS
    return ctx.finish(level="model_checking", rule=" | ".join(info["rules"]), exhaustive=False, technique=" | ".join(info["techniques"]))
