import envelope


def run(ctx, replay=None):
    return envelope.run(ctx, replay)
