import json

import envelope


def run(ctx, replay=None):
    rp = json.load(open(replay)) if replay else None
    if rp and rp.get("family") == "storeemit":
        import storeemit
        storeemit.run_c01_part(ctx, rp)
        return ctx.finish(level="model_checking", rule="replay: store layer (MessageStore emission / listing)", exhaustive=False,
                          technique="replay of one recorded store-layer script; TLC trace validation against MonStoreEmit")
    if not replay:
        # store layer: the same forgeries as log entries on real stores - what the MessageStore emits and lists
        # (MonStoreEmit.tla).  Runs right before the evidence is written.
        finish = ctx.finish

        def finish_with_store_layer(**kw):
            ctx.finish = finish
            import storeemit
            storeemit.run_c01_part(ctx)
            kw["technique"] = kw.get("technique", "") + "; store layer: forged entries appended to real orbit-db logs, emissions and listings of the real MessageStore judged by MonStoreEmit"
            return finish(**kw)
        ctx.finish = finish_with_store_layer
    return envelope.run(ctx, replay)
