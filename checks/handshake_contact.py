"""C06, second driver: specs/HandshakeContact.tla bound to contactRequestsManager.handleIncomingRequest
of a real protocol service (root package).  Called by checks/handshake.py (thorough tier, or
VERIF_C06_CONTACT=1)."""
import json, os, time
import vf

FILES = ["vf_hic_verif_test.go"]
DRV = "^TestVerifContactReplay$"
MON = ("MonContact", "Mon_Contact.cfg")
NLOW = 19
KEY_CONTACT = "loworder-replay:incoming-contact-request-recorded-for-A"
MON_FIELDS = ("role", "owner", "target", "ret", "oe", "oeh", "pe", "s3", "s4", "in")


def _failing(fin):
    S_ = fin["sess"]

    def same(r, s):
        return r["oe"] != "-" and s["oe"] != "-" and s["pe"] == r["oe"] and r["pe"] == s["oe"]
    bad = []
    for K in fin["app"]:
        if K in ("A", "B") and not any(r["role"] == "req" and r["owner"] == K and s["role"] == "rsp" and r["target"] == s["owner"]
                                       and r["s3"] and same(r, s) for r in S_ for s in S_):
            bad.append(("contact", K))
    for r in S_:
        if r["role"] == "req" and r["ret"] == "ok" and r["target"] != "E":
            if not any(t["role"] == "rsp" and t["owner"] == r["target"] and t["s4"] and same(r, t) for t in S_):
                bad.append(("req", r["owner"]))
    return bad


def _validate(ctx, name, blocks, tolerate, max_rejects=3):
    cur = list(blocks)
    rejects = []
    d = ctx.sub("valc_" + name)
    rounds = 0
    while cur:
        rounds += 1
        tp = os.path.join(d, "t%d.ndjson" % rounds)
        vf.write_ndjson(tp, [{"ev": "fin", "app": evs[-1]["app"],
                              "sess": [{k: s[k] for k in MON_FIELDS} for s in evs[-1]["sess"]]} for _, evs in cur])
        ok, info = ctx.validate_trace(MON[0], MON[1], tp, name="%s_%d" % (name, rounds),
                                      consts={"TolerateLow": "TRUE" if tolerate else "FALSE"}, timeout=1200)
        if ok:
            break
        if "high" not in info:
            raise vf.Infra("contact monitor broke on observed trace: %s" % info)
        bi = info["high"]
        rejects.append({"id": cur[bi][0], "info": info, "events": cur[bi][1]})
        cur = cur[:bi] + cur[bi + 1:]
        if len(rejects) >= max_rejects:
            cur = []
            break
    return len(cur), rejects


def phase(ctx, replay_script=None):
    """model check HandshakeContact, generate, run the root-package driver, validate.  Violations are
    reported through ctx (classify for the degenerate-ephemeral finding, violation otherwise)."""
    t0 = time.time()
    ov = ctx.overlay({".": FILES})
    if replay_script:
        scripts = [replay_script]
    else:
        # design level: with the comparison (and the point check) the contact property holds; without
        # the comparison TLC finds the announcement attack
        r = ctx.tlc_expect_ok("HandshakeContact", "MC_HandshakeContact.cfg", name="mc_contact_guarded", workers=2, timeout=900)
        mc = {"guarded": {"distinct": r.distinct}}
        r = ctx.tlc("HandshakeContact", "MC_HandshakeContact.cfg", name="mc_contact_nocompare", workers=2,
                    consts={"CompareContact": "FALSE"}, timeout=900, allow_violation=True, count=False)
        mc["without_comparison"] = {"violated": r.violated}
        if r.violated not in ("ContactAuth", "ContactIsAuthenticated"):
            raise vf.Infra("contact model without the comparison: expected a counterexample, got %r" % r.violated)
        ctx.extra.setdefault("model_checking", {})["contact"] = mc
        r = ctx.tlc("GenContact", "Gen_Contact.cfg", name="gen_contact", workers=2, timeout=900, heap="6g")
        hs = vf.scripts_from_tlc(r.printed.get("SCRIPT", []))
        scripts = []
        for i, s in enumerate(hs):
            h = s["steps"]
            steps = [{k: st[k] for k in ("act", "s", "x", "src", "acct", "pfk", "pfj", "c")} for st in h["steps"]]
            low = any(st["x"] == "low" for st in steps)
            cfg = {"sess": h["cfg"], "steps": False}
            if low:
                cfg["low"] = list(range(NLOW)) if h.get("attack") else sorted({i % NLOW, (i * 7 + 3) % NLOW})
            scripts.append({"id": 100000 + i, "cfg": cfg, "steps": steps, "attack": bool(h.get("attack"))})
        ctx.extra.setdefault("bounds", {})["contact_scripts"] = len(scripts)
    if not scripts:
        raise vf.Infra("no contact scripts generated")
    byid = {s["id"]: s for s in scripts}
    drv = [{"id": s["id"], "cfg": s["cfg"], "steps": s["steps"]} for s in scripts]
    events, out = vf.run_driver(ctx, ".", DRV, ov, drv, "contact", env={"VERIF_WORKERS": "4"}, timeout=2400)
    resets = {e["id"]: e for e in events if e.get("ev") == "reset"}
    blocks = sorted(vf.split_traces(events), key=lambda b: (resets[b[0]]["sid"], b[0]))
    if {resets[b]["sid"] for b, _ in blocks} != set(byid):
        raise vf.Infra("contact driver did not record every script")
    ctx.evaluations += len(blocks)
    ctx.distinct_nontrivial += sum(1 for _, evs in blocks if any(s["nf"] >= 2 for s in evs[-1]["sess"]))
    ctx.extra["contact_runs"] = len(blocks)
    ctx.extra["contact_incoming_requests_recorded"] = sum(len(evs[-1]["app"]) for _, evs in blocks)
    bymap = dict(blocks)

    def replay_obj(bid):
        rs = resets[bid]
        sc = byid[rs["sid"]]
        cfg = dict(sc["cfg"])
        cfg["low"] = [int(bid.split("/")[1])]
        return {"contact_script": {"id": sc["id"], "cfg": cfg, "steps": sc["steps"]}, "concretisation": rs, "observed": bymap[bid]}

    acc, rejects = _validate(ctx, "monc", blocks, False, max_rejects=1)
    if not rejects:
        ctx.traces_validated += acc
    else:
        acc2, other = _validate(ctx, "monc_tolerant", blocks, True, max_rejects=3)
        ctx.traces_validated += acc2
        for rj in other:
            ctx.violation("handleIncomingRequest breaks C06 (not explained by a degenerate ephemeral): observed %s"
                          % json.dumps(rj["info"].get("line", {}), sort_keys=True)[:700], replay_obj(rj["id"]))
        cands = [bid for bid, evs in blocks
                 if _failing(evs[-1]) and any(s["pe"] == "low" for s in evs[-1]["sess"])]
        ctx.extra.setdefault("runs_exhibiting_finding", {})[KEY_CONTACT] = len(cands)
        if cands:
            bid = sorted(cands, key=lambda b: (len(byid[resets[b]["sid"]]["steps"]), resets[b]["sid"], b))[0]
            _, rj1 = _validate(ctx, "monc_one", [(bid, bymap[bid])], False, max_rejects=1)
            if not rj1:
                raise vf.Infra("classification disagrees with the TLC contact monitor on run %s" % bid)
            ctx.classify(KEY_CONTACT,
                         "handleIncomingRequest of a real service recorded an incoming contact request (AccountContactRequestIncomingReceived) "
                         "for account A although A never addressed this account: degenerate X25519 ephemeral (%s) + replayed proof, then the "
                         "announcement of A's key [%d recorded runs]" % (resets[bid]["low"], len(cands)), replay_obj(bid))
        elif not other:
            rj = rejects[0]
            ctx.violation("handleIncomingRequest breaks C06: observed %s" % json.dumps(rj["info"].get("line", {}), sort_keys=True)[:700],
                          replay_obj(rj["id"]))
    ctx.extra["contact_phase_wall_s"] = round(time.time() - t0, 1)
