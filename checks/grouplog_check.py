"""C04 / C07 / C13: specs/GroupLog.tla bound to the account-group metadata store (orbit-db replicas)."""
import json, os
import vf

PKG = "."
FILES = ["vf_replica_verif_test.go", "vf_grouplog_verif_test.go", "vf_grouplog2_verif_test.go"]
DRV = "^TestVerifGroupLog$"
MON = ("MonGroupLog", "Mon_GroupLog.cfg")

ALLOPS = '{"en", "dis", "rs", "enq", "sent", "recv", "disc", "acc", "blk", "unb", "join", "leave"}'


def design_level(ctx):
    """TLC on the design: the repaired choices satisfy the invariants, each original choice breaks one"""
    out = {}
    quick = ctx.tier == "quick"
    base = {"MaxEntries": "2" if quick else "3"}
    variants = [("values", "values", "hash", True)]
    if not quick:
        variants += [("arrival", "values", "hash", False), ("values", "arrival", "hash", False), ("values", "values", "arrival", False)]
    for (a, b, t, must) in variants:
        r = ctx.tlc("GroupLog", "MC_GroupLog.cfg", name="mc_%s_%s_%s" % (a, b, t), allow_violation=True, workers=6, timeout=1500,
                    consts=dict(base, IndexSource='"%s"' % a, ListSource='"%s"' % b, TieBreak='"%s"' % t))
        out["index=%s list=%s tie=%s" % (a, b, t)] = r.violated or "ok"
        if must and not r.ok:
            raise vf.Infra("GroupLog.tla (repaired choices) must satisfy its invariants: %s" % r.violated)
    ctx.extra["design_level"] = out


def gen(ctx, prop):
    quick = ctx.tier == "quick"
    plans = {
        # (ops, contacts, groups, MaxEntries, MaxLen, WithList, walks)
        "C04": [('{"en", "dis", "rs"}', 1, 1, 3, 6, False, 250), ('{"enq", "blk", "unb", "recv", "acc"}', 1, 1, 4, 8, False, 250),
                (ALLOPS, 2, 1, 4, 9, False, 200),
                # contact / multi-member groups (members, devices, admins, alias keys), incl. partial batches (raw deliveries)
                ('{"adddev", "alias", "secretA", "secretB", "meta"}', 1, 1, 4, 9, False, 250, "contact"),
                ('{"adddev", "claim", "secretA", "secretB", "meta"}', 1, 1, 4, 9, False, 150, "multi"),
                ('{"en", "dis", "rs", "enq", "blk"}', 1, 1, 3, 7, False, 150, "account-raw")],
        "C07": [('{"enq", "sent", "recv", "disc", "acc", "blk", "unb"}', 1, 1, 5, 7, False, 500),
                ('{"enq", "sent", "recv", "disc", "acc", "blk", "unb"}', 2, 1, 6, 9, False, 400)],
        "C13": [('{"en", "dis", "rs"}', 1, 1, 3, 7, True, 400), ('{"en", "dis", "rs", "enq", "blk"}', 1, 1, 5, 10, True, 300),
                ('{"msg"}', 1, 1, 4, 9, True, 300)],
    }[prop]
    mult = 1 if quick else 8
    scripts = []
    for k, plan in enumerate(plans):
        (ops, nc, ng, me, ml, wl, walks) = plan[:7]
        world = plan[7] if len(plan) > 7 else "account"
        consts = {"Ops": ops, "Contacts": "{" + ", ".join('"c%d"' % (i + 1) for i in range(nc)) + "}",
                  "Groups": "{" + ", ".join('"g%d"' % (i + 1) for i in range(ng)) + "}",
                  "MaxEntries": str(me), "MaxLen": str(ml), "WithList": "TRUE" if wl else "FALSE"}
        if world in ("contact", "multi"):
            consts["Devs"] = '{"a1", "b1", "b2"}'
        consts["WithRaw"] = "TRUE" if world != "account" else "FALSE"
        r = ctx.tlc("GenGroupLog", "Gen_GroupLog.cfg", name="sim_%s_%d" % (prop, k), workers=1, simulate="num=%d" % (walks * mult),
                    depth=ml + 2, consts=consts, timeout=1500, heap="8g")
        hs = r.printed.get("SCRIPT", [])
        sc = vf.scripts_from_tlc(hs, cfg={"contacts": nc, "groups": ng, "plan": k, "log": "message" if ops == '{"msg"}' else "metadata",
                                                   "world": world.replace("-raw", "")},
                                 start_id=len(scripts), limit=walks * mult, rng=ctx.rng)
        scripts += sc
    if prop == "C13":
        scripts += list_matrices(ctx, quick)
    if prop == "C04":
        scripts += blind_worlds(ctx, quick)
    for i, s in enumerate(scripts):
        s["id"] = i
    return scripts


def blind_worlds(ctx, quick):
    """C04, model-independent histories for the contact / multi-member worlds: both members write the SAME kind of
    event (ownership claim, alias key, secret) after announcing their device, and the four to six entries reach the
    third replica in every order - causally closed or as raw single entries - followed by cross deliveries and
    reopens.  Random walks of the model (<= 4 entries, 9 steps) practically never produce two claims by two members
    AND every arrival order."""
    import itertools
    out = []

    def st(act, d, s="-", x=0):
        return {"act": act, "d": d, "s": s, "x": x, "y": 0, "res": {}}
    fams = [("multi", "claim"), ("contact", "alias"), ("multi", "secretA"), ("contact", "secretB")]
    for world, kind in fams:
        head = [st("op", "a1", "adddev"), st("op", "a1", kind), st("op", "b1", "adddev"), st("op", "b1", kind)]
        perms = list(itertools.permutations([1, 2, 3, 4]))
        if quick:
            perms = ctx.rng.sample(perms, 10) + [(4, 3, 2, 1), (2, 4, 1, 3)]
        for perm in perms:
            for how in ("rdeliver", "deliver"):
                steps = list(head) + [st(how, "b2", x=e) for e in perm]
                # everybody ends up with everything, then reopens
                steps += [st("deliver", "a1", x=4), st("deliver", "b1", x=2), st("deliver", "b2", x=4), st("deliver", "b2", x=2)]
                steps += [st("reopen", "b2"), st("reopen", "a1"), st("reopen", "b1")]
                out.append({"id": 0, "cfg": {"contacts": 1, "groups": 1, "plan": "blind-%s-%s" % (world, kind), "log": "metadata", "world": world},
                            "steps": steps})
    return out


def list_matrices(ctx, quick):
    """C13: the full (since, until, reverse) matrix - every entry, absent, unknown - on both replicas of
    linear logs (written locally, replicated in one batch / entry by entry / reopened) and of FORKED logs
    (both devices write concurrently, then exchange), for the metadata and the message log"""
    out = []

    def op(d, kind):
        return {"act": "op", "d": d, "s": kind, "x": 0, "y": 0, "res": {}}

    def matrix(n):
        steps = []
        ids = list(range(0, n + 1)) + [n + 5]          # 0 = absent, n+5 = unknown identifier
        for d in ("a1", "a2"):
            for since in ids:
                for until in ids:
                    for rev in ("fwd", "rev"):
                        steps.append({"act": "list", "d": d, "s": rev, "x": since, "y": until, "res": {}})
        return steps
    shapes = [("lin-batch", 3, 0), ("lin-each", 3, 0), ("lin-reopen", 2, 0), ("fork", 2, 1), ("fork", 1, 2), ("fork", 2, 2)]
    if not quick:
        shapes += [("lin-batch", 5, 0), ("lin-each", 4, 0), ("fork", 3, 2), ("fork", 2, 3), ("fork", 3, 3), ("lin-batch", 0, 0)]
    for log, kinds in (("metadata", ["en", "dis", "rs"]), ("message", ["msg"])):
        for shape, i, j in shapes:
            steps = []
            for k in range(i):
                steps.append(op("a1", kinds[k % len(kinds)]))
            for k in range(j):
                steps.append(op("a2", kinds[(k + 1) % len(kinds)]))
            n = i + j
            if shape == "lin-each":
                for e in range(1, i + 1):
                    steps.append({"act": "deliver", "d": "a2", "s": "-", "x": e, "y": 0, "res": {}})
            elif n > 0:
                if i:
                    steps.append({"act": "deliver", "d": "a2", "s": "-", "x": i, "y": 0, "res": {}})
                if j:
                    steps.append({"act": "deliver", "d": "a1", "s": "-", "x": n, "y": 0, "res": {}})
            if shape == "lin-reopen":
                steps += [{"act": "reopen", "d": "a1", "s": "-", "x": 0, "y": 0, "res": {}}, {"act": "reopen", "d": "a2", "s": "-", "x": 0, "y": 0, "res": {}}]
            steps += matrix(n)
            out.append({"id": 0, "cfg": {"contacts": 1, "groups": 1, "plan": "matrix-" + shape, "log": log, "world": "account"}, "steps": steps})
    return out


def interesting(s):
    acts = [x["act"] for x in s["steps"]]
    return ("deliver" in acts or "reopen" in acts) and sum(1 for x in s["steps"] if x["act"] == "op" and x["res"].get("ok")) >= 2


def run_prop(ctx, prop, replay=None):
    ov = ctx.overlay({PKG: FILES})
    if replay:
        scripts = [json.load(open(replay))["script"]]
    else:
        design_level(ctx)
        scripts = gen(ctx, prop)
    events, _ = vf.run_driver(ctx, PKG, DRV, ov, scripts, "grouplog", env={"VERIF_WORKERS": "8"}, timeout=2400)
    byid = {s["id"]: s for s in scripts}
    acc, rejects = vf.validate_blocks(ctx, MON, events, "grouplog", consts={"Prop": '"%s"' % prop})
    ctx.evaluations += len(scripts)
    ctx.distinct_nontrivial += sum(1 for s in scripts if interesting(s))
    blocks = dict(vf.split_traces(events))
    for rj in rejects:
        sc = byid[rj["id"]]
        line = rj["info"].get("line", {})
        steps = " ; ".join("%s %s %s%s" % (x["d"], x["act"], x.get("s", ""), x.get("x", "")) for x in sc["steps"][: rj["at"] + 1])
        key, what = classify(prop, line, rj, sc, steps)
        ctx.classify(key, what, {"script": sc, "observed": rj["events"], "rejected_line": line, "step": rj["at"]})
    for s in scripts:
        if interesting(s):
            ctx.add_samples([{"script": [[x["d"], x["act"], x.get("s"), x.get("x")] for x in s["steps"]],
                              "observed_last": blocks.get(s["id"], [{}])[-1]}], limit=2)
            break
    return scripts


def classify(prop, line, rj, sc, steps):
    ev = line.get("ev")
    st = line.get("st", {})
    if prop == "C13":
        return ("list:" + json.dumps({k: line.get(k) for k in ("since", "until", "rev", "ok", "out", "has")}, sort_keys=True)[:160],
                "listing breaks C13: since=%s until=%s reverse=%s on a replica holding %s returned ok=%s %s (history: %s)" % (
                    line.get("since"), line.get("until"), line.get("rev"), line.get("has"), line.get("ok"), line.get("out"), steps))
    if prop == "C07" and ev == "op":
        return ("lifecycle:%s" % json.dumps({k: line.get(k) for k in ("s", "x", "ok", "grew", "evk")}, sort_keys=True),
                "contact lifecycle broken at `%s %s %s`: ok=%s appended=%s event=%s; reported states after: %s (history: %s)" % (
                    line.get("d"), line.get("s"), line.get("x"), line.get("ok"), line.get("grew"), line.get("evk"),
                    {d: st.get(d, {}).get("cs") for d in st}, steps))
    return ("state:%s" % ev,
            "reported group state is not a function of the entry set / log order after `%s`: %s (history: %s)" % (
                ev, {d: {k: st.get(d, {}).get(k) for k in ("set", "sw", "seed", "cs", "gj")} for d in st}, steps))


def finish(ctx, prop):
    ctx.assumptions += ["two devices of one account over one in-memory IPFS node; stores opened LocalOnly; entries move only by BaseStore.Sync(heads) on request of the driver",
                        "reopen = close the orbit-db instance and open a new one on the same datastore",
                        "abstract events: contact-request switch, seed reset, the seven contact operations on 1-2 contacts, join/leave of one group"]
    return ctx.finish(level="model_checking",
                      rule="seeded -simulate walks of GenGroupLog (operations by two devices, deliveries of single heads = every split into batches, reopen at any point, listings) replayed on real orbit-db metadata stores; non-trivial = at least two successful writes and a delivery or reopen",
                      exhaustive=False,
                      technique="TLA+ spec GroupLog.tla model-checked by TLC (design level, both Impl choices); TLC-generated behaviours replayed on real orbit-db replicas; recorded traces checked by TLC against MonGroupLog")


def run_c04(ctx, replay=None):
    fam = json.load(open(replay)).get("family") if replay else None
    if fam != "index_snapshots":
        run_prop(ctx, "C04", replay)
    if not replay or fam == "index_snapshots":
        # the repository's OWN multi-peer tests, index snapshots judged by MonIndexSnap.tla
        import index_traces
        index_traces.run_part(ctx)
    return finish(ctx, "C04")


BAD = ["enq!noseed", "enq!shortseed", "enq!badkey", "enq!self", "recv!self", "recv!shortseed", "recv!noseed", "blk!self"]


def add_malformed(ctx, scripts):
    """C07: malformed / own-key variants at a random position of every second script (concretisation loop)"""
    for s in scripts[::2]:
        k = ctx.rng.randrange(0, len(s["steps"]) + 1)
        d = ctx.rng.choice(["a1", "a2"])
        s["steps"].insert(k, {"act": "op", "d": d, "s": ctx.rng.choice(BAD), "x": 1, "y": 0, "res": {}})
    return scripts


def run_c07(ctx, replay=None):
    global gen
    rp = json.load(open(replay)) if replay else None
    if rp and rp.get("family") == "contactapi":
        import contactapi
        contactapi.run_part(ctx, rp)
        return finish(ctx, "C07")
    g0 = gen

    def gen2(ctx, prop):
        return add_malformed(ctx, g0(ctx, prop))
    gen = gen2
    try:
        run_prop(ctx, "C07", replay)
    finally:
        gen = g0
    if not replay:
        # the same lifecycle through the RPC handlers of a real in-process service (MonContactApi.tla)
        import contactapi
        contactapi.run_part(ctx)
        if ctx.tier != "quick":
            # beyond the listed properties: the contact-request manager (ContactManager.tla), conformance = drift only;
            # the three clauses C07 implies (blocked incoming refused, never self, refusals append nothing) are verdicts
            import contactmgr
            try:
                contactmgr.run_part(ctx)
            except vf.Infra as e:
                ctx.drift.append({"trace": "contact_manager", "info": "part skipped: %s" % str(e)[:300]})
    return finish(ctx, "C07")


def run_rpc_lists(ctx, prop="C13"):
    """C13 through GroupMetadataList / GroupMessageList of an in-process service (prop="C19": only "no panic")"""
    ov = ctx.overlay({PKG: ["vf_rpclist_verif_test.go", "vf_foreign_verif_test.go"]})
    # (local metadata payloads, local messages, writes of a second member's device delivered afterwards: multi-head logs)
    sizes = [(0, 0, 0), (1, 2, 0), (1, 1, 2)] if ctx.tier == "quick" else [(0, 0, 0), (1, 1, 0), (3, 4, 0), (5, 6, 0), (2, 2, 2), (1, 3, 3), (0, 0, 2)]
    scripts = [{"id": i, "cfg": {"nmeta": a, "nmsg": b, "foreign": f}, "steps": []} for i, (a, b, f) in enumerate(sizes)]
    events, _ = vf.run_driver(ctx, PKG, "^TestVerifRPCList$", ov, scripts, "rpclist", timeout=2400)
    acc, rejects = vf.validate_blocks(ctx, MON, events, "rpclist", consts={"Prop": '"%s"' % prop})
    n = sum(1 for e in events if e.get("ev") in ("rpclist", "rpcparams"))
    ctx.evaluations += n
    ctx.distinct_nontrivial += sum(1 for e in events if e.get("ev") == "rpclist" and e.get("ok") and len(e.get("out", [])) >= 2)
    ctx.extra["rpc_listings"] = n
    for rj in rejects:
        line = rj["info"].get("line", {})
        ctx.violation("RPC listing breaks %s: %s" % (prop, json.dumps(line, sort_keys=True)[:400]),
                      {"script": scripts[rj["id"]], "rejected_line": line, "family": "rpclist"})


def run_c13(ctx, replay=None):
    if replay and json.load(open(replay)).get("family") == "rpclist":
        run_rpc_lists(ctx)
        return finish(ctx, "C13")
    run_prop(ctx, "C13", replay)
    if not replay:
        run_rpc_lists(ctx)
    return finish(ctx, "C13")
