import json

import ratchet


def run(ctx, replay=None):
    rp = json.load(open(replay)) if replay else None
    if rp and str(rp.get("family", "")).startswith("pipeline-"):
        import pipeline_check
        pipeline_check.run(ctx, replay, part="retry")
        return ctx.finish(level="model_checking", rule="replay: store-layer retry of a failed message", exhaustive=False,
                          technique="replay of one controlled schedule on the real message pipeline; TLC trace validation against MonPipeline")
    if not replay:
        # store layer of C02 (store_message.go is anchored): a message that fails - beyond the window, or sealed
        # before the announced counter - must be retried after others have been opened; window / late-joiner
        # scenarios of the message pipeline under controlled schedules (MonPipeline.tla)
        finish = ctx.finish

        def finish_with_retry_part(**kw):
            ctx.finish = finish
            import pipeline_check
            pipeline_check.run_retry_part(ctx)
            kw["technique"] = kw.get("technique", "") + "; store layer: window / late-joiner scenarios of the real message pipeline under controlled schedules judged by MonPipeline"
            return finish(**kw)
        ctx.finish = finish_with_retry_part
    return ratchet.run_c02(ctx, replay)
