import ratchet


def run(ctx, replay=None):
    return ratchet.run_c02(ctx, replay)
