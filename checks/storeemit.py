"""Store layer of C01 and C03: the forgeries of the envelope layer (GenEnvelope.tla) and of the metadata-signature
layer (GenMetaEnvelope.tla) written as real log entries and replicated to a victim member; verdict by
specs/MonStoreEmit.tla on what the real MessageStore / MetadataStore emitted, listed and reported (live and after reopen).

    run_c01_part(ctx)   message store   (harness/root/vf_storeemit_verif_test.go: TestVerifStoreEmitMsg)
    run_c03_part(ctx)   metadata store  (TestVerifStoreEmitMeta)

Both return nothing: violations / known findings / counts are added to ctx; the caller finishes the evidence.
`run(ctx, replay)` is a development entry (and re-executes replay files with "family": "storeemit")."""
import json, os, threading
import vf
import envelope      # read-only reuse: KNOWN_KEY, SIGCTX_CURRENT, the replay-family predicate
import metasig       # read-only reuse: python mirror of the term classification (sampling / statistics only)

FILES = ["vf_replica_verif_test.go", "vf_metasig_verif_test.go", "vf_storeemit_verif_test.go"]
MON = ("MonStoreEmit", "Mon_StoreEmit.cfg")
DRV_MSG = "^TestVerifStoreEmitMsg$"
DRV_META = "^TestVerifStoreEmitMeta$"
W = 2
FAMILY = "storeemit"
GTYPES = {True: ["account"], False: ["multi", "contact"]}


def _binary(ctx):
    """the root-package test binary with the three harness files, compiled once per Ctx"""
    b = getattr(ctx, "_storeemit_bin", None)
    dev = os.environ.get("VERIF_STOREEMIT_BIN")       # development only: a binary built earlier from the same tree
    if b is None and dev and os.path.exists(dev):
        b = ctx._storeemit_bin = dev
    if b is None:
        ov = ctx.overlay({".": FILES})
        b = ctx.go_test_compile(".", ov, name="storeemit", timeout=1500)
        ctx._storeemit_bin = b
    return b


def _bg(fn):
    box = {}

    def run():
        try:
            box["v"] = fn()
        except BaseException as e:      # re-raised by join()
            box["e"] = e
    t = threading.Thread(target=run)
    t.start()

    def join():
        t.join()
        if "e" in box:
            raise box["e"]
        return box["v"]
    return join


def _run(ctx, binary, drv, scripts, name, workers=8, timeout=900):
    shards = 2 if len(scripts) >= 40 else 1
    return ctx.run_sharded(binary, drv, ".", scripts, name, shards=shards, timeout=timeout, chunk=100000,
                           env={"VERIF_WORKERS": max(2, workers // shards)})


# =====================================================================================================
# C01
# =====================================================================================================

def _dk(shared, g, d):
    return d if shared else g + "." + d


def _forge_family(shared, a, hon):
    """one forge step: does it re-encrypt an honest (payload, signature) of the same device key for another counter
    or group with a key the adversary legitimately holds (the known finding; input classification only)"""
    h = hon.get(a["sg"])
    if not h:
        return False
    return (a["pl"] == h["p"] and a["dv"] == _dk(shared, h["g"], h["d"]) and a["kg"] == a["hs"] and a["kd"] == a["dv"]
            and a["kk"] == a["ct"] and a["bn"] == a["ct"] and (a["hs"], a["ct"]) != (h["g"], h["k"])
            and _dk(shared, a["hs"], h["d"]) == a["dv"])


def _honest_table(sc):
    """label -> {d, g, p, k} of the honest seals of a script (k = the counter the plan implies)"""
    hon, cnt = {}, {}
    for s in sc["steps"]:
        if s["act"] == "seal":
            a = s["a"]
            cnt[(a["d"], a["g"])] = cnt.get((a["d"], a["g"]), 0) + 1
            hon[a["id"]] = {"d": a["d"], "g": a["g"], "p": a["p"], "k": cnt[(a["d"], a["g"])]}
    return hon


def _family_ids(sc):
    hon = _honest_table(sc)
    return [s["a"].get("id", "f") for s in sc["steps"] if s["act"] == "forge" and _forge_family(sc["cfg"]["shared"], s["a"], hon)]


def _gen_msg(ctx, quick):
    """GenEnvelope histories, as checks/envelope.py calls the generator (smaller random part)"""
    out = {True: [], False: []}
    for shared in (True, False):
        base = {"W": str(W), "Shared": "TRUE" if shared else "FALSE", "SigCtx": envelope.SIGCTX_CURRENT, "Plan": '"std"'}
        tag = "sh" if shared else "pg"
        r = ctx.tlc("GenEnvelope", "Gen_Envelope.cfg", name="se_gen_" + tag, workers=2, timeout=1500, heap="6g",
                    consts=dict(base, MaxDiff="1" if quick else "2", MaxOpen="2"))
        sc = vf.scripts_from_tlc(r.printed.get("SCRIPT", []), cfg={"W": W, "shared": shared},
                                 limit=None if quick else 12000, rng=ctx.rng)
        num = 100 if quick else 600
        r = ctx.tlc("GenEnvelope", "Gen_Envelope.cfg", name="se_sim_" + tag, workers=1, simulate="num=%d" % num, depth=12,
                    timeout=1500, heap="6g", consts=dict(base, Mode='{"forge"}', MaxDiff="99", MaxOpen="2", Sample="TRUE"))
        sc2 = vf.scripts_from_tlc(r.printed.get("SCRIPT", []), cfg={"W": W, "shared": shared}, limit=2 * num, rng=ctx.rng)
        for s in sc:
            s["cfg"]["mode"] = envelope._mode(s["steps"])
        for s in sc2:
            s["cfg"]["mode"] = "product"
        out[shared] = sc + sc2
    return out


def _kind(sc):
    """stratum of a model script: mode + which fields of the forgery differ from the envelope it is nearest to"""
    m = sc["cfg"]["mode"]
    if m in ("forge", "product"):
        hon = _honest_table(sc)
        sh = sc["cfg"]["shared"]
        a = [s["a"] for s in sc["steps"] if s["act"] == "forge"][0]
        best = None
        for l, h in hon.items():
            d = tuple(sorted(k for k, v in (("hs", h["g"]), ("dv", _dk(sh, h["g"], h["d"])), ("ct", h["k"]), ("sg", l), ("pl", h["p"]),
                                            ("kg", h["g"]), ("kd", _dk(sh, h["g"], h["d"])), ("kk", h["k"]), ("bn", h["k"])) if a[k] != v))
            if best is None or len(d) < len(best):
                best = d
        opens = tuple((s["a"]["id"] == "f", s["a"]["g"] == a["hs"]) for s in sc["steps"] if s["act"] == "open")
        return (m if m == "forge" else "forge",) + best + ("|",) + opens
    if m == "tamper":
        t = [s["a"] for s in sc["steps"] if s["act"] == "tamper"][0]
        return (m, t["fld"], tuple(s["a"]["id"] == "t" for s in sc["steps"] if s["act"] == "open"))
    return (m,)


def _stratified(rng, items, key, n):
    groups = {}
    for it in items:
        groups.setdefault(key(it), []).append(it)
    keys = sorted(groups, key=lambda k: json.dumps(k))
    for k in keys:
        rng.shuffle(groups[k])
    out = []
    while len(out) < n and any(groups[k] for k in keys):
        for k in keys:
            if groups[k] and len(out) < n:
                out.append(groups[k].pop())
    return out


def _store_variant(rng, sc, variant):
    """a model script (seal* ; one adversary move ; receiver calls) as a store-layer script:
    'pre'   V registered every chain key first (the model's receiver); all honest entries are flushed at the end
    'late'  nothing is registered while the entries arrive (everything is parked in the message cache), the chain keys
            are registered afterwards in a random order, then the rest of the honest entries is delivered"""
    steps = [dict(act=s["act"], a=s["a"]) for s in sc["steps"]]
    cfg = dict(sc["cfg"], variant=variant)
    if variant == "late":
        cfg["prereg"] = False
        ks = [{"act": "key", "a": {"d": d, "g": g}} for g in ("g1", "g2") for d in ("d1", "d2", "x")]
        rng.shuffle(ks)
        steps += ks
    steps.append({"act": "flush", "a": {}})
    return {"cfg": cfg, "steps": steps}


def _blind_msg(rng, n):
    """model-independent histories: random honest plans, 1-3 forgeries drawn field by field around an honest envelope,
    deliveries / re-posts / chain-key registrations / listings / a reopen in a random order"""
    out = []
    tries = 0
    while len(out) < n and tries < 50 * n + 100:
        tries += 1
        shared = rng.random() < 0.4
        gtype = "account" if shared else rng.choice(["multi", "contact"])
        G, D = ["g1", "g2"], ["d1", "d2", "x"]
        seals, cnt, hon = [], {}, {}
        for i in range(rng.randint(3, 6)):
            d, g = rng.choice(D), rng.choice(["g1", "g1", "g2"])
            if cnt.get((d, g), 0) >= W + 1:
                continue
            cnt[(d, g)] = cnt.get((d, g), 0) + 1
            hid = "h%d" % (len(seals) + 1)
            seals.append({"act": "seal", "a": {"d": d, "g": g, "id": hid, "p": "p%d" % (len(seals) + 1)}})
            hon[hid] = {"d": d, "g": g, "p": "p%d" % (len(seals)), "k": cnt[(d, g)]}
        # what the adversary can read: envelopes of d1/d2 inside its window, and its own
        learn = [l for l, h in hon.items() if h["d"] == "x" or h["k"] <= W]
        if not learn:
            continue
        devkeys = sorted({_dk(shared, g, d) for g in G for d in D})
        advkeys = [(g, _dk(shared, g, d), k) for g in G for d in ("d1", "d2") for k in range(1, W + 1)]
        advkeys += [(h["g"], _dk(shared, h["g"], "x"), h["k"]) for h in hon.values() if h["d"] == "x"]
        advkeys.append(("junk", "junk", 0))
        payloads = [hon[l]["p"] for l in learn] + ["px"]
        forges = []
        for j in range(rng.randint(1, 3)):
            l = rng.choice(learn)
            h = hon[l]
            a = {"hs": h["g"], "dv": _dk(shared, h["g"], h["d"]), "ct": min(h["k"], W), "sg": l, "pl": h["p"],
                 "kg": h["g"], "kd": _dk(shared, h["g"], h["d"]), "kk": h["k"], "bn": h["k"]}
            for _ in range(rng.randint(1, 3)):
                f = rng.choice(["hs", "dv", "ct", "sg", "pl", "key", "bn"])
                if f == "hs":
                    a["hs"] = rng.choice(G)
                elif f == "dv":
                    a["dv"] = rng.choice(devkeys)
                elif f == "ct":
                    a["ct"] = rng.randint(1, W)
                elif f == "sg":
                    a["sg"] = rng.choice(learn + ["own"])
                elif f == "pl":
                    a["pl"] = rng.choice(payloads)
                elif f == "key":
                    a["kg"], a["kd"], a["kk"] = rng.choice(advkeys)
                else:
                    a["bn"] = rng.randint(1, W)
                if f in ("hs", "dv", "ct") and rng.random() < 0.5 and (a["hs"], a["dv"], a["ct"]) in advkeys:
                    a["kg"], a["kd"], a["kk"], a["bn"] = a["hs"], a["dv"], a["ct"], a["ct"]     # coherent re-keying
            if (a["kg"], a["kd"], a["kk"]) not in advkeys:
                continue
            xkeys = {_dk(shared, g, "x") for g in G}
            if a["dv"] in xkeys and (a["sg"] == "own" or hon[a["sg"]]["d"] == "x"):
                continue            # the adversary's own message under its own key is no forgery
            same = [hh for ll, hh in hon.items() if a == {"hs": hh["g"], "dv": _dk(shared, hh["g"], hh["d"]), "ct": hh["k"], "sg": ll,
                                                          "pl": hh["p"], "kg": hh["g"], "kd": _dk(shared, hh["g"], hh["d"]),
                                                          "kk": hh["k"], "bn": hh["k"]}]
            if same or _forge_family(shared, a, hon):
                continue            # unchanged / the known replay family (covered by the model scripts)
            a["id"] = "f%d" % (len(forges) + 1)
            forges.append({"act": "forge", "a": a})
        if not forges:
            continue
        prereg = rng.random() < 0.4
        pool = [{"act": "open", "a": {"id": l, "g": hon[l]["g"]}} for l in hon]
        for f in forges:
            pool.append({"act": "open", "a": {"id": f["a"]["id"], "g": f["a"]["hs"] if rng.random() < 0.8 else rng.choice(G)}})
        if rng.random() < 0.3:
            pool.append({"act": "repost", "a": {"id": rng.choice(learn)}})
        if not prereg:
            # V learns a chain key late; sometimes from an announcement made only now (V joined after the first messages)
            pool += [{"act": "key", "a": {"d": d, "g": g}} for g in G for d in D]
        for _ in range(rng.randint(0, 2)):
            pool.append({"act": "list", "a": {"g": rng.choice(G)}})
        if rng.random() < 0.4:
            pool.append({"act": "reopen", "a": {}})
        rng.shuffle(pool)
        if not prereg and rng.random() < 0.5:
            # V joined late: one sender's announcement for V is made after some of its messages were sealed
            d, g = rng.choice(D), rng.choice(G)
            seals.insert(rng.randint(0, len(seals)), {"act": "announce", "a": {"d": d, "g": g}})
        steps = seals + forges + pool + [{"act": "flush", "a": {}}]
        out.append({"cfg": {"W": W, "shared": shared, "gtype": gtype, "mode": "blind", "prereg": prereg, "variant": "blind"}, "steps": steps})
    return out


def _msg_nontrivial(evs):
    """a forged / damaged / transplanted entry reached V's replica AND honest traffic was delivered in the same history"""
    bad = any(x["hon"] == "" or not x["e"].startswith("h") for e in evs if e["ev"] == "arrive" for x in e["ents"])
    return bad and any(e["ev"] == "emit" for e in evs)


def _parked_undecryptable(evs, at, g):
    """input/observation shape of the stranding defect: at the rejected `quiet` line an honest entry of device d that V
    can open is undelivered, and an entry V can never open (forged / damaged body / sealed at or before the announced
    counter) that names the same device with a counter not above it arrived in that group and was never emitted"""
    k0, sealed, emitted, arrived, named = {}, {}, set(), [], {}
    tbase = None
    for e in evs[:at]:
        if e["ev"] == "seal":
            sealed[e["e"]] = e
        elif e["ev"] == "forge" and e.get("hs") == g:
            named[e["e"]] = (e["dv"], e["ct"])
        elif e["ev"] == "tamper" and e["fld"] in ("body", "e_body"):
            tbase = sealed.get(e["base"])
        elif e["ev"] == "key" and e["known"]:
            k0.setdefault((e["g"], e["dv"]), e["k0"])
        elif e["ev"] == "emit":
            emitted.add(e["e"])
        elif e["ev"] == "arrive" and e["g"] == g:
            arrived += e["ents"]
    blockers, waiting = [], []
    for x in arrived:
        if x["e"] in emitted:
            continue
        h = sealed.get(x["hon"])
        if h is not None and h["g"] == g and x["e"] == x["hon"] and (g, h["dv"]) in k0 and h["k"] > k0[(g, h["dv"])]:
            waiting.append((h["dv"], h["k"]))
        elif h is not None and h["g"] == g:
            blockers.append((h["dv"], h["k"]))          # honest, sealed before the announcement (or re-posted)
        elif x["e"].split("_")[0] in named:
            blockers.append(named[x["e"].split("_")[0]])
        elif x["e"].startswith("t") and tbase is not None and tbase["g"] == g:
            blockers.append((tbase["dv"], tbase["k"]))
    return any(bd == wd and bk <= wk for (bd, bk) in blockers for (wd, wk) in waiting)


def _judge_msg(ctx, scripts, events, name):
    byid_sc = {s["id"]: s for s in scripts}
    byid = dict(vf.split_traces(events))
    if set(byid) != set(byid_sc):
        raise vf.Infra("store driver did not record every script (%d of %d)" % (len(set(byid) & set(byid_sc)), len(byid_sc)))
    fam = [s for s in scripts if _family_ids(s)]
    rest = [s for s in scripts if not _family_ids(s)]
    cap = 2 if ctx.tier == "quick" else 8
    if len(fam) > cap:
        fam = sorted(ctx.rng.sample(fam, cap), key=lambda s: s["id"])
    stats = {"entries_forged": 0, "entries_honest": 0, "emissions": 0, "listings": 0}
    for part, pname, maxrej in ((rest, "rest", 3), (fam, "replayfam", len(fam) + 1)):
        if not part:
            continue
        evs = []
        for s in part:
            evs.append({"ev": "reset", "id": s["id"]})
            evs.extend(byid[s["id"]])
        acc, rejects = vf.validate_blocks(ctx, MON, evs, "%s_%s" % (name, pname), consts={"W": str(W)}, max_rejects=maxrej, timeout=1500)
        ctx.evaluations += len(part)
        for s in part:
            ev = byid[s["id"]]
            if _msg_nontrivial(ev):
                ctx.distinct_nontrivial += 1
            for e in ev:
                if e["ev"] == "arrive":
                    for x in e["ents"]:
                        stats["entries_honest" if x["e"] == x["hon"] else "entries_forged"] += 1
                stats["emissions"] += e["ev"] == "emit"
                stats["listings"] += e["ev"] == "list"
        for rj in rejects:
            sc = byid_sc[rj["id"]]
            line = rj["info"].get("line", {})
            what = "message store of a %s group breaks C01 at trace line %s (%s): observed %s" % (
                sc["cfg"]["gtype"], rj["at"], sc["cfg"].get("variant"), json.dumps(line, sort_keys=True))
            obj = {"family": FAMILY, "part": "c01", "script": sc, "observed": rj["events"], "rejected_line": line, "step": rj["at"]}
            fids = _family_ids(sc)
            hit = line.get("e") if line.get("ev") == "emit" else None
            if line.get("ev") == "quiet" and _parked_undecryptable(rj["events"], rj["at"], line.get("g")):
                # the shape of the defect repaired by /repo 0fe62f4 (known_findings: C08 stranded:parked-behind-undecryptable-head)
                ctx.violation("store layer: a decryptable message stays parked behind a parked message of the same device that can never be "
                              "opened (forged, or sealed before the announced counter): " + what, obj)
            elif line.get("ev") == "restless":
                ctx.violation("store layer: V keeps emitting GroupMessageEvents although nothing arrives any more: " + what, obj)
            elif hit and any(hit == f or hit.startswith(f + "_") for f in fids):
                ctx.classify(envelope.KNOWN_KEY, "store layer: a fellow member's re-encryption of another device's signed payload is emitted as a "
                             "GroupMessageEvent of that device at the forged counter: " + what, obj)
            else:
                ctx.violation(what, obj)
    return stats


def run_c01_part(ctx, replay_obj=None):
    quick = ctx.tier == "quick"
    if replay_obj:
        scripts = [dict(replay_obj["script"], id=0)]
        binary = _binary(ctx)
    else:
        build = _bg(lambda: _binary(ctx))
        gen = _gen_msg(ctx, quick)
        nmodel = 360 if quick else 5000
        scripts = []
        counts = {}
        for shared in (True, False):
            # quotas per kind of adversary move (the forgery strata alone outnumber the budget)
            half = nmodel // 2
            pick = []
            for modes, share in ((("tamper",), 0.2), (("honest",), 0.08), (("forge", "product"), 0.72)):
                pick += _stratified(ctx.rng, [x for x in gen[shared] if x["cfg"]["mode"] in modes], _kind, int(half * share))
            ctx.rng.shuffle(pick)
            for j, sc in enumerate(pick):
                gts = GTYPES[shared]
                gt = gts[(j + ctx.seed) % len(gts)]
                variant = "late" if (j + ctx.seed) % 3 == 0 else "pre"
                s2 = _store_variant(ctx.rng, sc, variant)
                s2["cfg"]["gtype"] = gt
                s2["cfg"]["nflip"] = 6 if quick else 16
                scripts.append(s2)
                k = "%s_%s_%s" % (sc["cfg"]["mode"], "shared" if shared else "pergroup", variant)
                counts[k] = counts.get(k, 0) + 1
        blind = _blind_msg(ctx.rng, 90 if quick else 1200)
        counts["blind"] = len(blind)
        scripts += blind
        for i, s in enumerate(scripts):
            s["id"] = i
        ctx.extra.setdefault("storeemit", {})["c01_scripts"] = counts
        ctx.extra["storeemit"]["c01_generated"] = {("shared" if k else "pergroup"): len(v) for k, v in gen.items()}
        binary = build()
    events = _run(ctx, binary, DRV_MSG, scripts, "se_msg", timeout=1500)
    stats = _judge_msg(ctx, scripts, events, "se_msg")
    unbuilt = [e for e in events if e.get("ev") == "forge" and not e.get("built", True)]
    stats["forgeries_not_built"] = len(unbuilt)
    if unbuilt and not ctx.violations and not ctx.known:
        raise vf.Infra("the attacker library could not build %d forgeries (%s)" % (len(unbuilt), unbuilt[0].get("err")))
    ctx.extra.setdefault("storeemit", {})["c01_observed"] = stats
    byid = dict(vf.split_traces(events))
    for s in scripts:
        if s["cfg"].get("mode") in ("forge", "blind") and _msg_nontrivial(byid[s["id"]]) and sum(1 for x in ctx.samples if x.get("layer") == "store") < 1:
            ctx.samples.append({"layer": "store", "cfg": s["cfg"], "script": [x for x in s["steps"] if x["act"] != "seal"][:6],
                                "observed": [e for e in byid[s["id"]] if e["ev"] in ("arrive", "emit")][:6]})
    ctx.assumptions += [
        "store layer (C01): log entries are replicated with BaseStore.Sync of one head (an entry arrives with the part of its causal past V lacks); "
        "group contexts are not activated, V registers chain keys through RegisterChainKey + ProcessMessageQueueForDevicePK as the metadata handler does",
        "store layer (C01): quiescence = V's own sentinel message emitted after a silent round (FIFO subscriber + message queue); "
        "re-posting the unchanged bytes of an honest envelope in a second log entry and a listing that re-queues an undelivered entry are left open by the monitor",
    ]


# =====================================================================================================
# C03
# =====================================================================================================

MDA, INIT = metasig.MDA, metasig.INIT
SMALL = metasig.SMALL
NOMSIG = {"by": "-", "over": "-", "st": "none"}


def _honest_term(t, who, body=0):
    dev, mem = "dev" + who, "mem" + who
    if t == MDA:
        pd = {"shape": MDA, "dev": dev, "mem": mem, "msig": {"by": mem, "over": dev, "st": "ok"}, "body": body, "flip": False}
    elif t == INIT:
        pd = {"shape": INIT, "dev": "-", "mem": dev, "msig": dict(NOMSIG), "body": body, "flip": False}
    else:
        pd = {"shape": t, "dev": dev, "mem": "-", "msig": dict(NOMSIG), "body": body, "flip": False}
    return {"ty": t, "pd": pd, "sig": {"by": "grp" if t == INIT else dev, "over": json.loads(json.dumps(pd)), "st": "ok"}, "box": "g", "nonce": "ok"}


def _canon_acct(tm):
    """in an account group the member key of every device IS the group key: the three symbolic names denote one key"""
    def k(x):
        return "grp" if x in ("memA", "memV") else x

    def pd(p):
        p = dict(p)
        p["mem"] = k(p["mem"])
        p["msig"] = dict(p["msig"], by=k(p["msig"]["by"]))
        return p
    t = dict(tm)
    t["pd"] = pd(tm["pd"])
    t["sig"] = dict(tm["sig"], by=k(tm["sig"]["by"]), over=pd(tm["sig"]["over"]))
    return t


def _uses_grp(tm):
    return tm["sig"]["by"] == "grp" and tm["sig"]["st"] != "none"


def _gen_meta(ctx, quick):
    """(world kinds it may be used in, term) for every envelope TLC reaches by one forging step (as checks/metasig.py),
    thorough: also two steps on the reduced type set"""
    cases = {}

    def add(creator, printed):
        for h in printed:
            for s in h:
                k = json.dumps(s["a"], sort_keys=True)
                cases.setdefault(k, set()).add(creator)
    for creator in ("FALSE", "TRUE"):
        r = ctx.tlc("GenMetaEnvelope", "Gen_MetaEnvelope.cfg", name="se_gen_mut1_creator_" + creator, workers=1,
                    consts={"Creator": creator}, timeout=900, heap="4g")
        add(creator, r.printed.get("SCRIPT", []))
        if not quick:
            r = ctx.tlc("GenMetaEnvelope", "Gen_MetaEnvelope.cfg", name="se_gen_mut2_small_creator_" + creator, workers=1,
                        consts={"Creator": creator, "MaxMut": "2", "TypeSel": SMALL}, timeout=1500, heap="6g")
            add(creator, r.printed.get("SCRIPT", []))
    return [(sorted(v), json.loads(k)) for k, v in sorted(cases.items())]


def _pairs_meta(ctx):
    """two-delivery histories of the model on the reduced type set (index interplay)"""
    r = ctx.tlc("GenMetaEnvelope", "Gen_MetaEnvelope.cfg", name="se_gen_pairs", workers=2,
                consts={"Creator": "TRUE", "TypeSel": SMALL, "MaxDeliver": "2"}, timeout=900, heap="6g")
    seen, out = set(), []
    for h in r.printed.get("SCRIPT", []):
        terms = [s["a"] for s in h]
        k = json.dumps(terms, sort_keys=True)
        if k not in seen:
            seen.add(k)
            out.append(terms)
    out.sort(key=lambda t: json.dumps(t, sort_keys=True))
    return out


def _world_pool(world, cases):
    """terms usable in a world kind, in the symbolic vocabulary of that world"""
    out, seen = [], set()
    for creators, tm in cases:
        if world == "mm":
            pass                                    # the group key exists; whether the adversary holds it is the term's business
        elif world == "contact":
            if _uses_grp(tm):
                continue                            # the private key of a contact group is not available to the driver
        elif world == "acct":
            if "TRUE" not in creators:
                continue                            # every device of the account holds the group key
            tm = _canon_acct(tm)
        if tm["ty"] == "ContactAliasKeyAdded" and metasig.classify(tm) == "open":
            # a well-signed payload of another type presented as an alias-key event makes the index's post action fail for
            # good (unknown device / alias key of the wrong size): an observation outside C03, see vfSEPoisonProbe
            continue
        k = json.dumps(tm, sort_keys=True)
        if k not in seen:
            seen.add(k)
            out.append(tm)
    return out


def _writer(tm):
    """honest events of party V are written by the honest member's replica, everything else by the attacker's"""
    return "H" if tm == _honest_term(tm["ty"], "V", tm["pd"]["body"]) else "E"


def _base_of(world, tm):
    """the honest event a forged term was (most likely) made from: same payload shape, same party"""
    pd = tm["pd"]
    who = "A" if "A" in (pd["dev"] + pd["mem"]) else "V"
    b = _honest_term(pd["shape"], who, pd["body"])
    if world == "contact" and _uses_grp(b):
        return None
    return _canon_acct(b) if world == "acct" else b


def _meta_script(rng, world, terms, shuffle):
    """write steps in the given order (one log per writer), delivery in a random merge that keeps each writer's order"""
    steps, per = [], {"H": [], "E": []}
    for i, tm in enumerate(terms):
        wtr = _writer(tm)
        steps.append({"act": "write", "a": tm, "s": wtr, "x": i + 1, "y": 0 if metasig.classify(tm) == "forged" else 1})
        per[wtr].append(i + 1)
    order = []
    if shuffle:
        h, e = list(per["H"]), list(per["E"])
        while h or e:
            src = h if (h and (not e or rng.random() < len(h) / float(len(h) + len(e)))) else e
            order.append(src.pop(0))
    else:
        order = [i + 1 for i in range(len(terms))]
    if shuffle:
        # some heads are not delivered by themselves: they reach V later, in one batch with a successor of the same writer
        last = {wtr: (v[-1] if v else None) for wtr, v in per.items()}
        wof = {s["x"]: s["s"] for s in steps}
        order = [x for x in order if x == last[wof[x]] or rng.random() < 0.7]
    steps += [{"act": "deliver", "x": x} for x in order]
    return {"cfg": {"world": world, "mode": "meta"}, "steps": steps}


def _feat(tm):
    return (metasig.classify(tm),) + metasig.features(tm)


def _meta_scripts(ctx, quick, cases, pairs):
    rng = ctx.rng
    scripts, counts = [], {}
    per_world = 14 if quick else 250
    length = 10 if quick else 14
    for world in ("mm", "acct", "contact"):
        pool = _world_pool(world, cases)
        forged = [t for t in pool if metasig.classify(t) == "forged"]
        correct = [t for t in pool if metasig.classify(t) == "correct"]
        opn = [t for t in pool if metasig.classify(t) == "open"]
        if not forged or not correct:
            raise vf.Infra("no terms for world " + world)
        cat = _stratified(rng, forged, _feat, per_world * (length - 3))
        # catalogue histories: forged terms, each history seasoned with correct ones, written and delivered in order
        k = 0
        for j in range(per_world):
            terms = cat[k:k + length - 3]
            k += length - 3
            if not terms:
                break
            terms = terms + rng.sample(correct, min(2, len(correct))) + (rng.sample(opn, 1) if opn else [])
            rng.shuffle(terms)
            scripts.append(_meta_script(rng, world, terms, shuffle=False))
            counts[world + "_catalogue"] = counts.get(world + "_catalogue", 0) + 1
        # blind mixes: a forged term together with the honest event it copies from, before or after it, any merge of the two logs
        for j in range(per_world):
            terms = []
            for t in rng.sample(forged, min(length // 2, len(forged))):
                terms.append(t)
                b = _base_of(world, t)
                if b is not None and rng.random() < 0.7:
                    terms.append(b)
            terms += rng.sample(correct, min(2, len(correct)))
            rng.shuffle(terms)
            scripts.append(_meta_script(rng, world, terms[:length + 2], shuffle=True))
            counts[world + "_blind"] = counts.get(world + "_blind", 0) + 1
    # the model's two-delivery histories (multi-member world, creator holds the group key)
    npairs = 16 if quick else 300
    pick = _stratified(rng, pairs, lambda p: tuple(_feat(t)[:6] for t in p), npairs * 4)
    for j in range(0, len(pick), 4):
        terms = [t for p in pick[j:j + 4] for t in p]
        scripts.append(_meta_script(rng, "mm", terms, shuffle=False))
        counts["mm_pairs"] = counts.get("mm_pairs", 0) + 1
    for i, s in enumerate(scripts):
        s["id"] = i
    return scripts, counts


def _judge_meta(ctx, scripts, events, name):
    byid_sc = {s["id"]: s for s in scripts}
    blocks = vf.split_traces(events)
    if set(b[0] for b in blocks) != set(byid_sc):
        raise vf.Infra("store driver did not record every script")
    acc, rejects = vf.validate_blocks(ctx, MON, events, name, consts={"W": str(W)}, max_rejects=4, timeout=1500)
    stats = {"deliveries": 0, "forged": 0, "correct": 0, "open": 0, "reopens": 0, "batches_of_2_or_more": 0, "writer_index_panics_on_unforged_terms": 0}
    distinct = set()
    for bid, evs in blocks:
        for e in evs:
            if e["ev"] == "mdeliver":
                stats["deliveries"] += 1
                c = metasig.classify(e["tm"])
                stats[c] += 1
                if c != "correct":
                    distinct.add(e["world"] + json.dumps(e["tm"], sort_keys=True))
                stats["batches_of_2_or_more"] += e["nb"] > 1
            stats["reopens"] += e["ev"] == "mfinal"
            stats["writer_index_panics_on_unforged_terms"] += e["ev"] in ("crash", "rcrash")
    ctx.evaluations += stats["deliveries"]
    ctx.distinct_nontrivial += len(distinct)
    for rj in rejects:
        sc = byid_sc[rj["id"]]
        line = rj["info"].get("line", {})
        obs = {k: v for k, v in line.items() if k not in ("tm",)}
        tm = line.get("tm")
        what = "metadata store (%s group) breaks C03 at trace line %s: %s observed %s" % (
            sc["cfg"]["world"], rj["at"], ("entry [%s] of type %s" % (metasig.classify(tm), tm.get("ty"))) if tm else "after reopen",
            json.dumps(obs, sort_keys=True))
        ctx.violation(what, {"family": FAMILY, "part": "c03", "script": sc, "observed": rj["events"], "rejected_line": line, "step": rj["at"]})
    for bid, evs in blocks:
        for e in evs:
            if e["ev"] == "mdeliver" and metasig.classify(e["tm"]) == "forged" and sum(1 for x in ctx.samples if x.get("layer") == "store") < 1:
                ctx.samples.append({"layer": "store", "world": e["world"], "term": e["tm"], "observed": {k: v for k, v in e.items() if k != "tm"}})
    return stats


def run_c03_part(ctx, replay_obj=None):
    quick = ctx.tier == "quick"
    if replay_obj:
        scripts = [dict(replay_obj["script"], id=0)]
        binary = _binary(ctx)
    else:
        build = _bg(lambda: _binary(ctx))
        pj = _bg(lambda: _pairs_meta(ctx))
        cases = _gen_meta(ctx, quick)
        pairs = pj()
        scripts, counts = _meta_scripts(ctx, quick, cases, pairs)
        ctx.extra.setdefault("storeemit", {})["c03_scripts"] = counts
        ctx.extra["storeemit"]["c03_terms_generated"] = len(cases)
        binary = build()
    events = _run(ctx, binary, DRV_META, scripts, "se_meta", timeout=1500)
    stats = _judge_meta(ctx, scripts, events, "se_meta")
    ctx.extra.setdefault("storeemit", {})["c03_observed"] = stats
    ctx.assumptions += [
        "store layer (C03): forged and honest envelopes are appended by other replicas (every member writes with the group's log identity) and replicated "
        "to the victim with BaseStore.Sync; the control replica holds a copy of the victim's key material and receives every entry except the forged ones; "
        "quiescence = more empty EventReplicated events than the store's subscription buffer (sequential consumer)",
        "store layer (C03): in an account group member key = group key (symbolic names merged); the private key of a contact group is not reachable from the "
        "root package, terms signed with it are left out there",
    ]


# ----------------------------------------------------------------------------------------------------- development entry
def run(ctx, replay=None):
    parts = os.environ.get("VERIF_STOREEMIT_PARTS", "c01,c03").split(",")
    if replay:
        rp = json.load(open(replay))
        if rp.get("part") == "c03":
            run_c03_part(ctx, rp)
        else:
            prop, ctx.prop = ctx.prop, "C01"
            try:
                run_c01_part(ctx, rp)
            finally:
                ctx.prop = prop
    else:
        if "c01" in parts:
            prop, ctx.prop = ctx.prop, "C01"        # known findings are looked up by property id
            try:
                run_c01_part(ctx)
            finally:
                ctx.prop = prop
        if "c03" in parts:
            run_c03_part(ctx)
    return ctx.finish(level="model_checking", rule="store layer of C01 / C03 (development entry)", exhaustive=False,
                      technique="TLC-generated forgeries replayed as log entries on real stores; TLC trace validation against MonStoreEmit.tla")
