"""C06, contact layer with a pending outgoing request (checks/handshake.py calls run_part in every tier): a peer
that authenticates as E and announces another account's key must not make the node act on that key."""
import json
import vf


def run_part(ctx):
    ov = ctx.overlay({".": ["vf_hicpending_verif_test.go"]})
    quick = ctx.tier == "quick"
    scripts = []
    for rep in range(2 if quick else 10):
        for announce in ("victim", "self"):
            for seed in (True, False):
                for meta in (True, False):
                    # coalesce: the peer's last handshake frame and its contact frame arrive in one chunk
                    scripts.append({"id": len(scripts), "cfg": {"announce": announce, "seed": seed, "meta": meta, "coalesce": (len(scripts) % 2 == 1)}, "steps": []})
    events, _ = vf.run_driver(ctx, ".", "^TestVerifContactPending$", ov, scripts, "contactpending", timeout=1500)
    acc, rejects = vf.validate_blocks(ctx, ("MonContactPending", "Mon_ContactPending.cfg"), events, "contactpending")
    ctx.evaluations += len(scripts)
    ctx.distinct_nontrivial += len(scripts)
    ctx.extra["contact_pending_runs"] = len(scripts)
    for rj in rejects:
        line = rj["info"].get("line", {})
        ctx.violation("handleIncomingRequest breaks C06 with a pending outgoing request: a peer authenticated as E announced %s: %s" % (
            "another account's key K" if line.get("announce") == "victim" else "its own key",
            json.dumps(line, sort_keys=True)[:500]), {"script": scripts[rj["id"]], "rejected_line": line, "family": "contactpending"})
