"""C12: specs/Invitation.tla bound to MetadataStore.GroupJoin / MultiMemberGroupJoin / FilterGroupForReplication."""
import json, os, threading
import vf

FILES = ["vf_invite_verif_test.go", "vf_metasig_verif_test.go"]
DRV = "^TestVerifInvite$"
MON = ("MonInvitation", "Mon_Invitation.cfg")
CONF = ("TraceInvitation", "Trace_Invitation.cfg")
KNOWN_KEY = "groupjoin-accepts-non-multimember-type"


# python mirror, used for routing / statistics only (the verdict is the TLA+ monitor's)
def sig_valid(i):
    return (i["pk"] in ("g1", "g2") and i["secret"] in ("s1", "s2") and i["sig"]["st"] == "ok"
            and i["sig"]["by"] == i["pk"] and i["sig"]["over"] == i["secret"])


def valid(i):
    return i["type"] == "multi" and sig_valid(i)


def _hist(printed):
    seen, out = set(), []
    for h in printed:
        steps = [{"act": s["act"], "s": s["s"], "a": s["a"]} for s in h]
        k = json.dumps(steps, sort_keys=True)
        if k not in seen:
            seen.add(k)
            out.append(steps)
    out.sort(key=lambda s: json.dumps(s, sort_keys=True))
    return out


def _model_check(ctx, quick):
    # intended design (GroupJoin requires the multi-member type): all invariants hold
    ctx.tlc_expect_ok("Invitation", "MC_Invitation.cfg", name="mc_checks_type", workers=2,
                      consts={"MaxMut": "2", "MaxJoin": "2" if quick else "3"}, timeout=900)
    # the implementation choice of the current tree (signature only) breaks the property at design level
    r = ctx.tlc("Invitation", "MC_Invitation.cfg", name="mc_signature_only", workers=2,
                consts={"JoinChecksType": "FALSE"}, allow_violation=True, count=False)
    if r.violated not in ("OnlyValidJoined", "NeverAccountIdentity"):
        raise vf.Infra("model vacuous: signature-only GroupJoin does not violate the model's C12 invariants (%s)" % r.violated)
    ctx.extra["design_level"] = "JoinChecksType=TRUE: no error; JoinChecksType=FALSE: %s violated" % r.violated


def _generate(ctx, quick):
    out = []
    r = ctx.tlc("GenInvitation", "Gen_Invitation.cfg", name="gen_mut1_join1", workers=1, timeout=600)
    out += _hist(r.printed.get("SCRIPT", []))
    r = ctx.tlc("GenInvitation", "Gen_Invitation.cfg", name="gen_mut1_join2", workers=1,
                consts={"MaxJoin": "2"}, timeout=900, heap="4g")
    two = _hist(r.printed.get("SCRIPT", []))
    ctx.extra["two_join_histories_enumerated"] = len(two)
    n2 = 120 if quick else 3000
    out += two if len(two) <= n2 else sorted(ctx.rng.sample(two, n2), key=lambda s: json.dumps(s, sort_keys=True))
    if not quick:
        r = ctx.tlc("GenInvitation", "Gen_Invitation.cfg", name="gen_mut2_join1", workers=1,
                    consts={"MaxMut": "2"}, timeout=900, heap="4g")
        out += _hist(r.printed.get("SCRIPT", []))
    seen, ded = set(), []
    for s in out:
        k = json.dumps(s, sort_keys=True)
        if k not in seen:
            seen.add(k)
            ded.append(s)
    return ded


def _what(line):
    if line["ev"] == "join":
        i = line["inv"]
        obs = {k: v for k, v in line.items() if k not in ("inv",)}
        return "invitation [pk %s, secret %s, signature by %s over %s (%s), type %s] through %s: observed %s" % (
            i["pk"], i["secret"], i["sig"]["by"], i["sig"]["over"], i["sig"]["st"], i["type"], line.get("via"), json.dumps(obs, sort_keys=True))
    return "%s: observed %s" % (line["ev"], json.dumps(line, sort_keys=True))


def run_c12(ctx, replay=None):
    quick = ctx.tier == "quick"
    ov = ctx.overlay({".": FILES})
    scripts = []
    mc_err, mc_thread = [], None
    if replay:
        rp = json.load(open(replay))
        scripts = [rp["script"]]
    else:
        def bg():
            try:
                _model_check(ctx, quick)
            except BaseException as e:
                mc_err.append(e)
        mc_thread = threading.Thread(target=bg)
        mc_thread.start()
        for steps in _generate(ctx, quick):
            scripts.append({"id": len(scripts), "cfg": {"mode": "join"}, "steps": steps})
        if not scripts:
            raise vf.Infra("no scripts generated")
        # model-independent two-step sequences: a refused variant of an invitation (type substituted, signature
        # damaged, foreign signer) is presented first - the driver also asks the secret store which identity it
        # would use for that group object - and the untouched invitation right after it through the same joiner:
        # nothing the refused attempt left behind (keyed by the identifier alone) may change how the node acts
        # in the group it then joins
        for via in ("store", "service"):
            for g, sec in (("g1", "s1"), ("g2", "s2")):
                good = {"pk": g, "secret": sec, "sig": {"by": g, "over": sec, "st": "ok"}, "type": "multi"}
                bads = [dict(good, type=t) for t in ("contact", "account", "undefined", "unknown")]
                bads += [dict(good, sig={"by": g, "over": sec, "st": "flip"}), dict(good, sig={"by": "sign1", "over": sec, "st": "ok"})]
                for bad in bads:
                    scripts.append({"id": len(scripts), "cfg": {"mode": "join", "blind": True},
                                    "steps": [{"act": "join", "s": via, "a": bad}, {"act": "join", "s": via, "a": good}]})
        for via in ("store", "service"):
            for _ in range(1 if quick else 3):
                scripts.append({"id": len(scripts), "cfg": {"mode": "flips", "via": via}, "steps": []})
        for gt in ("multi", "contact", "account"):
            for _ in range(2 if quick else 20):
                scripts.append({"id": len(scripts), "cfg": {"mode": "desc", "gtype": gt}, "steps": []})
    byid = {s["id"]: s for s in scripts}
    events, out = vf.run_driver(ctx, ".", DRV, ov, scripts, "invite", timeout=1500,
                                env={"VERIF_MAXACT": 3 if quick else 10})
    if mc_thread:
        mc_thread.join()
        if mc_err:
            raise mc_err[0]
    blocks = vf.split_traces(events)
    if not replay and set(byid) != set(b[0] for b in blocks):
        raise vf.Infra("driver did not record every script")

    # vacuity guards
    for _, evs in blocks:
        for e in evs:
            if e["ev"] == "desc" and e.get("ok") and (e["fullmeta"] != e["nmeta"] or e["fullhdr"] != e["nmsg"] or e["nmeta"] == 0 or e["nmsg"] == 0):
                raise vf.Infra("descriptor session is vacuous: the full group does not open its own envelopes: %s" % e)

    # one block per recorded call (the monitor is stateless per line).  Lines that look like the
    # suspected defect are validated apart so that they cannot mask anything else.
    main, suspects, origin = [], [], {}
    n = 0
    for bid, evs in blocks:
        for i, e in enumerate(evs):
            tgt = suspects if (e["ev"] == "join" and e["ok"] and sig_valid(e["inv"]) and e["inv"]["type"] != "multi") else main
            tgt.append({"ev": "reset", "id": n})
            tgt.append(e)
            origin[n] = (bid, i)
            n += 1
    # most telling first: the activated group context ran under the account identity
    pairs = [(suspects[k], suspects[k + 1]) for k in range(0, len(suspects), 2)]
    pairs.sort(key=lambda p: (not p[1].get("actmemacct", False), p[1].get("via") != "service", p[1]["inv"]["type"], p[0]["id"]))
    suspects = [x for p in pairs for x in p]
    nsus = len(suspects) // 2
    rejects = []
    if main:
        _, rj = vf.validate_blocks(ctx, MON, main, "mon", max_rejects=6, timeout=900)
        rejects += rj
    sus_rejected = 0
    if suspects:
        _, rj = vf.validate_blocks(ctx, MON, suspects, "mon_suspects", max_rejects=2, timeout=900)
        sus_rejected = len(rj)
        rejects += rj
    known_hit = False
    for rj in rejects:
        bid, i = origin[rj["id"]]
        line = rj["events"][0]
        sc = byid.get(bid, {"id": bid, "cfg": {}, "steps": []})
        rsc = {"id": sc["id"], "cfg": sc["cfg"], "steps": sc["steps"][:line.get("i", 0) + 1]} if sc["cfg"].get("mode") == "join" else sc
        robj = {"script": rsc, "rejected_line": line}
        if line["ev"] == "join" and line["ok"] and sig_valid(line["inv"]) and line["inv"]["type"] != "multi":
            if known_hit:
                continue
            known_hit = True
            acct = [k for k in ("memacct", "devacct", "infomemacct", "infodevacct", "actmemacct", "actdevacct") if line.get(k)]
            what = ("GroupJoin accepts a correctly signed invitation whose group type is %s (not multi-member) through %s: an entry is appended (log grew by %s)%s"
                    % (line["inv"]["type"], line.get("via"), line.get("grew"),
                       "; the node then uses its ACCOUNT identity for that group (%s)" % ",".join(acct) if acct else ""))
            ctx.classify(KNOWN_KEY, what, robj)
        else:
            ctx.violation(_what(line), robj)
    ctx.extra["suspect_lines"] = nsus
    ctx.extra["suspect_lines_rejected_by_monitor"] = sus_rejected

    # conformance: which implementation choice does the tree match?
    if not [r for r in rejects if not (r["events"][0]["ev"] == "join" and r["events"][0].get("ok"))]:
        flat = []
        for bid, evs in blocks:
            flat.append({"ev": "reset", "id": bid})
            flat.extend(evs)
        tp = os.path.join(ctx.sub("conf"), "conf.ndjson")
        vf.write_ndjson(tp, flat)
        matched = None
        for choice in ("FALSE", "TRUE"):
            ok, info = ctx.validate_trace(CONF[0], CONF[1], tp, name="conf_" + choice, strict=True, timeout=900,
                                          consts={"JoinChecksType": choice})
            if ok:
                matched = choice
                break
            last = info
        ctx.extra["impl_choice_matched"] = {"JoinChecksType": matched}
        if matched is None:
            rec = {"trace": "invite", "info": {k: last.get(k) for k in ("high", "line", "invariant")}}
            ctx.drift.append(rec)
            vf.log("model drift (full-spec conformance)", str(rec)[:400])
        else:
            ctx.extra["conformant_traces"] = len(blocks)

    joins = [e for _, evs in blocks for e in evs if e["ev"] == "join"]
    ctx.evaluations = len(joins) + sum(e["n"] for _, evs in blocks for e in evs if e["ev"] == "joinflips") + \
        sum(e.get("ncand", 0) * (e["nmeta"] + e["nmsg"]) for _, evs in blocks for e in evs if e["ev"] == "desc")
    ctx.distinct_nontrivial = len(set(json.dumps([e["inv"], e["via"]], sort_keys=True) for e in joins if not valid(e["inv"])))
    ctx.extra["joins"] = {"total": len(joins), "accepted": sum(1 for e in joins if e["ok"]),
                          "valid_invitations": sum(1 for e in joins if valid(e["inv"])),
                          "via_service": sum(1 for e in joins if e["via"] == "service")}
    ctx.extra["invitation_bit_flips_tried"] = sum(e["n"] for _, evs in blocks for e in evs if e["ev"] == "joinflips")
    ctx.extra["descriptors"] = {"tested": sum(1 for _, evs in blocks for e in evs if e["ev"] == "desc"),
                                "envelopes_tried": sum(e["nmeta"] + e["nmsg"] for _, evs in blocks for e in evs if e["ev"] == "desc"),
                                "candidate_readers_per_descriptor": max([e.get("ncand", 0) for _, evs in blocks for e in evs if e["ev"] == "desc"] or [0])}
    for e in joins:
        if not valid(e["inv"]) and len(ctx.samples) < 2:
            ctx.samples.append({"invitation": e["inv"], "observed": {k: v for k, v in e.items() if k != "inv"}})
    for _, evs in blocks:
        for e in evs:
            if e["ev"] == "desc" and len(ctx.samples) < 3:
                ctx.samples.append({"descriptor": e})
    ctx.assumptions += [
        "symbolic invitations over two fresh multi-member groups per script; bit positions and unknown type numbers from VERIF_SEED",
        "changes of link_key / sign_pub / link_key_sig of an invitation are outside the statement and not exercised",
        "descriptor part: 'derivable' is approximated by trying every 32-byte window of the marshalled descriptor as group secret",
        "TLC 1.8.0, Go toolchain, in-memory ipfs mock",
    ]
    return ctx.finish(level="model_checking",
                      rule="every invitation TLC reaches from a valid one by one mutation of the catalogue (thorough: two), joined through the store and through the service, single joins exhaustively and sampled pairs of joins; every single-bit flip of pk/secret/signature; descriptors of groups of the three types against every metadata type and random message envelopes; non-trivial = distinct (invalid invitation, entry point)",
                      exhaustive=False,
                      technique="TLA+ spec Invitation.tla model-checked by TLC for both implementation choices; TLC-enumerated join histories replayed on a real account metadata store and a real service; recorded traces checked by TLC against the property monitor MonInvitation.tla (verdict) and the full spec (drift)")
