import keyderiv


def run(ctx, replay=None):
    return keyderiv.run(ctx, replay)
