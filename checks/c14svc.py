"""Stand-alone development entry for the service-layer part of C14: `bin/check C14svc [--replay file]`.
Not registered in MANIFEST.json; the registered check C14 (checks/c14.py) is meant to call pushsvc.run_part(ctx)."""
import json
import pushsvc


def run(ctx, replay=None):
    pushsvc.run_part(ctx, json.load(open(replay)) if replay else None)
    return ctx.finish(level="model_checking", rule=pushsvc.RULE, exhaustive=False, technique=pushsvc.TECHNIQUE)
