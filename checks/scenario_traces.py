"""Trace validation of the repository's OWN scenario tests (thorough tier of C02):

the secret store is wrapped by a recorder through the build overlay (harness/pkg/secretstore/zz_vfrec_verif.go,
NewSecretStore rewritten in a copy of secret_store.go), the unchanged scenario tests are run, and the recorded
seal / register / open calls of every store are split per (receiving store, group), devices renamed, and
checked by TLC against the C02 monitor MonRatchet.tla (window 100)."""
import json, os, re, subprocess
import vf

TESTS = "TestScenario_MessageMultiMemberGroup|TestScenario_MessageContactGroup|TestScenario_MessageAccountGroup$|TestScenario_MessageAccountAndMultiMemberGroups|Test_AddMessage_ListMessages_manually_supplying_secrets|Test_Add_Messages_To_Cache"


def overlay(ctx):
    src = open(os.path.join(vf.REPO, "pkg/secretstore/secret_store.go")).read()
    new, n = re.subn(r"(func NewSecretStore\([^)]*\) \(SecretStore, error\) \{\s*\n\s*)return newSecretStore\(([^)]*)\)",
                     r"\1return vfRecWrap(newSecretStore(\2))", src)
    new, n2 = re.subn(r"(func NewInMemSecretStore\([^)]*\) \(SecretStore, error\) \{\s*\n\s*)return newInMemSecretStore\(([^)]*)\)",
                      r"\1return vfRecWrap(newInMemSecretStore(\2))", new)
    if n != 1 or n2 != 1:
        raise vf.Infra("secret_store.go: constructor pattern not found (recorder cannot be injected)")
    d = ctx.sub("rec")
    p = os.path.join(d, "secret_store.go")
    open(p, "w").write(new)
    rep = {os.path.join(vf.REPO, "pkg/secretstore/secret_store.go"): p,
           os.path.join(vf.REPO, "pkg/secretstore/zz_vfrec_verif.go"): os.path.join(vf.HARNESS, "pkg/secretstore/zz_vfrec_verif.go")}
    ov = os.path.join(d, "overlay.json")
    json.dump({"Replace": rep}, open(ov, "w"))
    return ov


def run_part(ctx, tests=TESTS, timeout=1500):
    ov = overlay(ctx)
    d = ctx.sub("rec")
    tp = os.path.join(d, "rec.ndjson")
    env = ctx.go_env({"VERIF_REC_TRACE": tp, "TEST_STABILITY": "flappy", "TEST_SPEED": "fast"})
    cmd = ["go", "test", "-tags", "verif", "-vet=off", "-count=1", "-overlay", ov, "-run", tests, "-timeout", "%ds" % timeout, "."]
    p = subprocess.run(cmd, cwd=vf.REPO, env=env, stdout=subprocess.PIPE, stderr=subprocess.STDOUT, text=True, errors="replace", timeout=timeout + 300)
    ctx.extra["scenario_tests"] = {"cmd": " ".join(cmd[:3] + cmd[7:]), "rc": p.returncode}
    if "[build failed]" in p.stdout:
        raise vf.Infra("recorder does not build against the current tree:\n" + "\n".join(p.stdout.splitlines()[:30]))
    if not os.path.exists(tp):
        raise vf.Infra("scenario tests recorded nothing:\n" + "\n".join(p.stdout.splitlines()[-20:]))
    evs = vf.read_ndjson(tp)
    evs.sort(key=lambda e: e["seq"])
    # one trace per (receiving store, group): seals of the devices this store registers, its registrations, its opens
    regs = {}
    for e in evs:
        if e["ev"] == "register" and e["ok"] and not e.get("own"):
            regs.setdefault((e["store"], e["g"]), set()).add(e["dev"])
    blocks = []
    bid = 0
    for (store, g), devs in sorted(regs.items()):
        names = {d: "d%d" % (i + 1) for i, d in enumerate(sorted(devs))}
        if len(names) > 12:
            continue
        tr = []
        W = None
        for e in evs:
            if e.get("g") != g or e.get("dev") not in names:
                continue
            dn = names[e["dev"]]
            if e["ev"] == "seal" and e["ok"]:
                tr.append({"ev": "seal", "d": dn, "k": e["k"]})
            elif e["store"] == store and e["ev"] == "register" and not e.get("own"):
                W = e.get("w", 100)
                if e["before"] == -1 and e["after"] >= 0:
                    a = e["after"] - W
                else:
                    a = 0      # re-registration: the monitor ignores the counter of a later announcement
                tr.append({"ev": "register", "d": dn, "a": a, "ok": e["ok"]})
            elif e["store"] == store and e["ev"] == "open" and not e.get("own") and e.get("cid"):
                tr.append({"ev": "open", "d": dn, "k": e["k"], "ok": e["ok"], "same": True, "pdev": True, "pk": e["k"]})
        if any(x["ev"] == "open" for x in tr):
            blocks.append((bid, W or 100, tr, names))
            bid += 1
    if not blocks:
        raise vf.Infra("no (store, group) trace with opens was recorded")
    flat = []
    for b, W, tr, names in blocks:
        flat.append({"ev": "reset", "id": b})
        flat.extend(tr)
    devset = "{" + ", ".join('"d%d"' % i for i in range(1, 13)) + "}"
    acc, rejects = vf.validate_blocks(ctx, ("MonRatchet", "Mon_Ratchet.cfg"), flat, "scenario",
                                      consts={"W": "100", "N": "100", "Dev": devset})
    ctx.extra["scenario_traces"] = {"stores_x_groups": len(blocks), "events": len(flat), "accepted": acc}
    ctx.evaluations += len(blocks)
    ctx.distinct_nontrivial += sum(1 for b in blocks if sum(1 for x in b[2] if x["ev"] == "open" and x["ok"]) >= 2)
    for rj in rejects:
        b = blocks[rj["id"]]
        ctx.violation("execution of the repository's own scenario tests breaks C02 at recorded call %s: %s" % (rj["at"], rj["info"].get("line")),
                      {"scenario_trace": b[2], "rejected_line": rj["info"].get("line"), "tests": tests})
    if blocks:
        ctx.add_samples([{"scenario_trace_of_one_store_and_group": blocks[0][2][:25]}], limit=8)
