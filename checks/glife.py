"""Stand-alone development entry for the group-lifecycle module: `bin/check GLIFE [--tier thorough] [--replay f]`.
Not registered in MANIFEST.json (the module is not a listed property); the coordinator hooks grouplife.run_part into the
thorough tier of C19 (a recovered panic found here is a C19 violation; everything else is drift / observation)."""
import json
import grouplife


def run(ctx, replay=None):
    obj = json.load(open(replay)) if replay else None
    grouplife.run_part(ctx, replay_obj=obj)
    return ctx.finish(level="model_checking",
                      rule="group lifecycle: every recorded trace of the real service is a behaviour of GroupLife.tla (drift otherwise); design clauses evaluated on observed values are observations; a recovered panic of a service method is C19's violation",
                      exhaustive=False, technique="TLC exhaustive on GroupLife.tla (+ vacuity guards for the named deviations) + GenGroupLife scripts with gates at the lock boundaries + random concurrent pairs replayed on a real in-process service + TraceGroupLife strict conformance + MonGroupLife")
