"""C11, lock-level controlled schedules: concurrent FIRST uses of a fresh store's generated / derived keys.
pkg/secretstore's keystore wrapper and store are instrumented so that every Lock/RLock is a gate; model-independent
blind schedules over 2-3 tasks; verdict by MonKeySched.tla on what the tasks were given vs. what the store and a
store restored from the export answer afterwards."""
import json
import vf

PKG = "pkg/secretstore"
PLANS = [
    [["acct"], ["acct"]],
    [["contact"], ["contact"]],
    [["member"], ["member"]],
    [["contact"], ["export"]],
    [["member"], ["proof"]],
    [["agroup"], ["contact"]],
    [["contact", "member"], ["member", "contact"]],
    [["acct"], ["contact"], ["export"]],
    [["device"], ["device"]],
]


def run_part(ctx):
    quick = ctx.tier == "quick"
    rep, skel = ctx.instrument(["pkg/secretstore/device_keystore_wrapper.go", "pkg/secretstore/secret_store.go"])
    ov = ctx.overlay({PKG: ["vf_world_verif_test.go", "vf_keysched_verif_test.go"]}, replace=rep)
    scripts = []
    nb = 60 if quick else 1000
    for plans in PLANS:
        threads = ["t%d" % (i + 1) for i in range(len(plans))]
        for seq in vf.blind_schedules(ctx.rng, threads, nb, 8 + 6 * sum(len(p) for p in plans)):
            scripts.append({"id": len(scripts), "cfg": {"plans": plans}, "steps": [{"act": "step", "d": t} for t in seq]})
    binary = ctx.go_test_compile(PKG, ov, name="keysched")
    events = ctx.run_sharded(binary, "^TestVerifKeySched$", PKG, scripts, "keysched", shards=4)
    acc, rejects = vf.validate_blocks(ctx, ("MonKeySched", "Mon_KeySched.cfg"), events, "keysched")
    ctx.evaluations += len(scripts)
    ctx.distinct_nontrivial += len(set(json.dumps([s["cfg"], s["steps"]]) for s in scripts))
    ctx.extra["lock_level_key_schedules"] = {"runs": len(scripts), "plans": len(PLANS),
                                             "gates": sorted(set(o["label"] for ops in skel.values() if ops for o in ops))[:12]}
    byid = {s["id"]: s for s in scripts}
    for rj in rejects:
        sc = byid[rj["id"]]
        line = rj["info"].get("line", {})
        ctx.violation("concurrent first uses of a fresh store break C11 (tasks %s, schedule %s): given %s, the store answers %s afterwards, a store restored from the export answers %s, the contact derives %s; errs=%s, not finished %s" % (
            json.dumps(sc["cfg"]["plans"]), " ".join(x["d"] for x in sc["steps"]),
            {k: [v[:16] for v in vs] for k, vs in line.get("given", {}).items()}, {k: v[:16] for k, v in line.get("again", {}).items()},
            {k: v[:16] for k, v in line.get("restored", {}).items()}, str(line.get("peer"))[:16], line.get("errs"), line.get("notdone")),
            {"script": sc, "rejected_line": line, "family": "keysched"})
    fin = [e for e in events if e.get("ev") == "keyfinal"]
    if fin:
        ctx.add_samples([{"key_schedule": {"plans": scripts[0]["cfg"]["plans"], "steps": [x["d"] for x in scripts[0]["steps"]]},
                          "observed": {k: fin[0][k] for k in ("errs", "notdone", "imported")}}], limit=8)
