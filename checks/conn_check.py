"""C16: specs/Conn.tla (connectedness tracker + notify at gate granularity) bound to the real code."""
import json, os, re
import vf

PKG = "internal/verifconn"
MON = ("MonConn", "Mon_Conn.cfg")
DRV = "^TestVerifConnSched$"
PEERS = ["p1", "p2"]


def op(o, p, v=0):
    return {"op": o, "p": p, "v": v}


def scenarios(tier):
    s = [
        dict(ops=[op("assoc", "p1"), op("up", "p1", 1)], waiters=["w1"], calls=2, cancel="none"),
        dict(ops=[op("up", "p1", 1), op("assoc", "p1"), op("up", "p1", 2)], waiters=["w1"], calls=2, cancel="none"),
        dict(ops=[op("assoc", "p1"), op("up", "p1", 1)], waiters=["w1"], calls=1, cancel="all"),
        dict(ops=[op("assoc", "p1"), op("assoc", "p2"), op("up", "p2", 2)], waiters=["w1"], calls=2, cancel="none"),
        dict(ops=[op("assoc", "p1"), op("up", "p1", 1), op("up", "p1", 0)], waiters=["w1"], calls=3, cancel="none"),
        dict(ops=[op("assoc", "p1"), op("up", "p1", 1)], waiters=["w1", "w2"], calls=1, cancel="none"),
        dict(ops=[op("assoc", "p1"), op("up", "p1", 1)], waiters=["w1", "w2"], calls=1, cancel="w1"),   # one of two waiters gives up
    ]
    if tier != "quick":
        s += [dict(ops=[op("assoc", "p1"), op("up", "p1", 1), op("assoc", "p2")], waiters=["w1", "w2"], calls=2, cancel="none"),
              dict(ops=[op("up", "p2", 1), op("assoc", "p2"), op("up", "p2", 0)], waiters=["w1", "w2"], calls=1, cancel="all")]
    return s


def tla_scen(s):
    ops = ", ".join('[op |-> "%s", p |-> "%s", v |-> %d]' % (o["op"], o["p"], o["v"]) for o in s["ops"])
    return '[ops |-> <<%s>>, waiters |-> {%s}, calls |-> %d, cancel |-> %s]' % (
        ops, ", ".join('"%s"' % w for w in s["waiters"]), s["calls"], '"%s"' % s["cancel"])


def gen(ctx):
    scs = scenarios(ctx.tier)
    quick = ctx.tier == "quick"
    design = {}
    scripts = []
    alldefs = {"Scenarios": "<<" + ", ".join(tla_scen(s) for s in scs) + ">>"}
    for impl in ("fixed", "orig"):
        r = ctx.tlc("Conn", "MC_Conn.cfg", name="mc_" + impl, consts={"Impl": '"%s"' % impl}, defs=alldefs,
                    allow_violation=True, workers=4, timeout=900)
        design[impl] = r.violated or "ok"
        if impl == "fixed" and not r.ok:
            raise vf.Infra("Conn.tla (fixed variant) must satisfy C16: %s" % r.violated)
    ctx.extra["design_level"] = design
    # behaviours: random walks to quiescence over all scenarios and both variants (the schedules of the
    # original variant are the ones that realise the lock inversion / the missed broadcast)
    per = 1500 if quick else 15000
    for impl in ("fixed", "orig"):
        g = ctx.tlc("Conn", "Gen_Conn.cfg", name="sim_" + impl, consts={"Impl": '"%s"' % impl}, defs=alldefs, workers=1,
                    simulate="num=%d" % per, depth=200, timeout=1500, heap="8g")
        for h in g.printed.get("SCRIPT", []):
            scripts.append((impl, h))
    # exhaustive enumeration for the small scenarios (thorough: all single-waiter scenarios)
    small = [0, 1] if quick else [0, 1, 3, 4]
    for i in small:
        g = ctx.tlc("Conn", "Gen_Conn.cfg", name="gen_s%d" % i, consts={"Impl": '"fixed"'},
                    defs={"Scenarios": "<<" + tla_scen(scs[i]) + ">>"}, workers=1, timeout=1500, heap="8g")
        for h in g.printed.get("SCRIPT", []):
            h[-1]["si"] = i + 1
            scripts.append(("fixed", h))
    seen, out = set(), []
    for impl, h in scripts:
        si = h[-1]["si"]
        key = json.dumps([si, [s["d"] for s in h if s["act"] == "step"]])
        if key in seen:
            continue
        seen.add(key)
        cfg = dict(scs[si - 1], scen=si, peers=PEERS, model=impl)
        out.append({"id": len(out), "cfg": cfg, "steps": [s for s in h if s["act"] == "step"], "expect": h[-1]})
    # model-independent schedules (vf.blind_schedules): interleavings the model of the current code never enables
    nb = 250 if quick else 4000
    for si, sc in enumerate(scs):
        threads = ["upd"] + sorted(sc["waiters"]) + (["cancel"] if sc["cancel"] != "none" else [])
        for seq in vf.blind_schedules(ctx.rng, threads, nb, 14 + 8 * len(threads)):
            out.append({"id": len(out), "cfg": dict(sc, scen=si + 1, peers=PEERS, model="blind"),
                        "steps": [{"act": "step", "d": t} for t in seq], "expect": {}})
    ctx.extra["blind_schedules"] = nb * len(scs)
    return out


def overlay(ctx):
    rep, skel = ctx.instrument(["connectedness_manager.go", "internal/notify/notify.go"])
    # the tracker is compiled as its own tiny package (instrumented copy with the package clause renamed)
    src = open(rep.pop("connectedness_manager.go")).read()
    src2 = re.sub(r"^package \w+", "package verifconn", src, count=1, flags=re.M)
    dst = os.path.join(ctx.sub("inst"), "connectedness_manager_verifconn.go")
    open(dst, "w").write(src2)
    rep[PKG + "/connectedness_manager.go"] = dst
    ov = ctx.overlay({PKG: ["vf_conn_verif_test.go"]}, replace=rep)
    return ov, skel


NU_MON = ("MonNotifyUser", "Mon_NotifyUser.cfg")


def nu_scenarios(tier):
    s = [dict(kind="lifecycle", ops=[1, 0], waiters=["w1"], calls=2, cancel="none"),
         dict(kind="lifecycle", ops=[1], waiters=["w1", "w2"], calls=1, cancel="all"),
         dict(kind="lifecycle", ops=[1, 1, 0], waiters=["w1"], calls=2, cancel="none"),
         dict(kind="peercache", ops=[1, 2], waiters=["w1"], calls=2, cancel="none"),
         dict(kind="peercache", ops=[1, 1, 2], waiters=["w1", "w2"], calls=1, cancel="none"),
         dict(kind="peercache", ops=[1], waiters=["w1"], calls=1, cancel="all"),
         dict(kind="lifecycle", ops=[1], waiters=["w1", "w2"], calls=1, cancel="w1"),
         dict(kind="peercache", ops=[1, 2], waiters=["w1", "w2"], calls=1, cancel="w2")]
    if tier != "quick":
        s += [dict(kind="lifecycle", ops=[1, 0, 1], waiters=["w1", "w2"], calls=2, cancel="none"),
              dict(kind="peercache", ops=[1, 2, 3], waiters=["w1", "w2"], calls=2, cancel="all")]
    return s


def nu_tla(s):
    return '[kind |-> "%s", ops |-> <<%s>>, waiters |-> {%s}, calls |-> %d, cancel |-> %s]' % (
        s["kind"], ", ".join(str(v) for v in s["ops"]), ", ".join('"%s"' % w for w in s["waiters"]), s["calls"], '"%s"' % s["cancel"])


def run_notify_users(ctx):
    """the lifecycle manager and the peer cache: same notify primitive, same harness (specs/NotifyUser.tla)"""
    quick = ctx.tier == "quick"
    scs = nu_scenarios(ctx.tier)
    defs = {"Scenarios": "<<" + ", ".join(nu_tla(s) for s in scs) + ">>"}
    ctx.tlc_expect_ok("NotifyUser", "MC_NotifyUser.cfg", name="mc_notifyuser", defs=defs, workers=4, timeout=900)
    g = ctx.tlc("NotifyUser", "Gen_NotifyUser.cfg", name="sim_notifyuser", defs=defs, workers=1,
                simulate="num=%d" % (1200 if quick else 12000), depth=200, timeout=1500, heap="8g")
    seen, scripts = set(), []
    for h in g.printed.get("SCRIPT", []):
        si = h[-1]["si"]
        key = json.dumps([si, [x["d"] for x in h if x["act"] == "step"]])
        if key in seen:
            continue
        seen.add(key)
        scripts.append({"id": len(scripts), "cfg": dict(scs[si - 1], scen=si), "steps": [x for x in h if x["act"] == "step"]})
    nb = 150 if quick else 2500
    for si, sc in enumerate(scs):
        threads = ["upd"] + sorted(sc["waiters"]) + (["cancel"] if sc["cancel"] != "none" else [])
        for seq in vf.blind_schedules(ctx.rng, threads, nb, 12 + 8 * len(threads)):
            scripts.append({"id": len(scripts), "cfg": dict(sc, scen=si + 1), "steps": [{"act": "step", "d": t} for t in seq]})
    # peer cache only, model-independent (NotifyUser.tla has no removal): the updater also removes the peer from the
    # topic (-1 = RemoveFromCache) between updates; a waiter parked across the removal must still see the next update
    for sc in [dict(kind="peercache", ops=[1, -1, 2], waiters=["w1"], calls=2, cancel="none"),
               dict(kind="peercache", ops=[1, -1, 1], waiters=["w1", "w2"], calls=2, cancel="none"),
               dict(kind="peercache", ops=[1, 2, -1, 3], waiters=["w1"], calls=3, cancel="none")]:
        threads = ["upd"] + sorted(sc["waiters"])
        for seq in vf.blind_schedules(ctx.rng, threads, nb, 16 + 10 * len(threads)):
            scripts.append({"id": len(scripts), "cfg": dict(sc, scen=0), "steps": [{"act": "step", "d": t} for t in seq]})
    cap = 3000 if quick else 25000
    for kind, pkg, files, src, drv in (("lifecycle", "pkg/lifecycle", ["vf_lifecycle_verif_test.go"], "pkg/lifecycle/manager.go", "^TestVerifLifecycleSched$"),
                                       ("peercache", "pkg/tinder", ["vf_peercache_verif_test.go"], "pkg/tinder/peer_cache.go", "^TestVerifPeerCacheSched$")):
        mine = [s for s in scripts if s["cfg"]["kind"] == kind]
        if len(mine) > cap:
            mine = ctx.rng.sample(mine, cap)
        rep, _ = ctx.instrument([src, "internal/notify/notify.go"])
        ov = ctx.overlay({pkg: files}, replace=rep)
        binary = ctx.go_test_compile(pkg, ov, name=kind)
        events = ctx.run_sharded(binary, drv, pkg, mine, kind, shards=4)
        byid = {s["id"]: s for s in mine}
        acc, rejects = vf.validate_blocks(ctx, NU_MON, events, kind)
        ctx.evaluations += len(mine)
        blocks = dict(vf.split_traces(events))
        ctx.distinct_nontrivial += len(set(json.dumps([[e.get("t"), e.get("to")] for e in evs if e["ev"] == "step"]) for evs in blocks.values()
                                           if any(str(e.get("to", "")).startswith("blocked") for e in evs if e["ev"] == "step")))
        for rj in rejects:
            sc = byid[rj["id"]]
            line = rj["info"].get("line", {})
            sched = " ".join(x["d"] for x in sc["steps"])
            if line.get("ev") == "final" and line.get("atgate"):
                key, what = "deadlock:%s" % kind, "%s deadlock: %s wait for a lock forever (schedule %s)" % (kind, line.get("atgate"), sched)
            elif line.get("ev") == "final" and line.get("parked"):
                key, what = "missed-update:%s" % kind, "%s missed update: %s parked with a pending change %s (schedule %s)" % (kind, line.get("parked"), line.get("pending"), sched)
            else:
                key, what = "%s:%s" % (kind, json.dumps(line, sort_keys=True)[:160]), "%s breaks C16 at step %s: %s" % (kind, rj["at"], json.dumps(line, sort_keys=True)[:300])
            ctx.classify(key, what, {"script": sc, "observed": rj["events"], "rejected_line": line, "family": kind})


def run(ctx, replay=None):
    if replay and json.load(open(replay)).get("family") in ("lifecycle", "peercache"):
        raise vf.Infra("replay of lifecycle/peercache findings: re-run the check (schedules are regenerated from the seed)")
    ov, skel = overlay(ctx)
    if replay:
        scripts = [json.load(open(replay))["script"]]
    else:
        scripts = gen(ctx)
    cap = 8000 if ctx.tier == "quick" else 60000
    ctx.extra["behaviours_generated"] = len(scripts)
    if len(scripts) > cap:
        scripts = ctx.rng.sample(scripts, cap)
    binary = ctx.go_test_compile(PKG, ov, name="conn")
    events = ctx.run_sharded(binary, DRV, PKG, scripts, "conn", shards=4 if ctx.tier == "quick" else 8)
    byid = {s["id"]: s for s in scripts}
    scs = scenarios(ctx.tier)
    cdefs = {"Scenarios": "<<" + ", ".join(tla_scen(x) for x in scs) + ">>"}
    acc, rejects = vf.validate_blocks(ctx, MON, events, "conn", conf=("TraceConn", "Trace_Conn.cfg"), defs=cdefs,
                                      conf_consts={"Impl": '"fixed"'},
                                      conf_map=lambda e: dict(e, tokind=("done" if e.get("to") == "done" else "blocked" if str(e.get("to", "")).startswith("blocked:") else "gate")) if e.get("ev") == "step" else e)
    ctx.evaluations += len(scripts)
    blocks = dict(vf.split_traces(events))
    distinct, nontrivial = set(), set()
    for bid, evs in blocks.items():
        key = json.dumps([[e.get("t"), e.get("from"), e.get("to")] for e in evs if e["ev"] == "step"])
        distinct.add(key)
        if any(str(e.get("to", "")).startswith("blocked") or e.get("p") is False for e in evs if e["ev"] == "step"):
            nontrivial.add(key)
    ctx.distinct_nontrivial += len(nontrivial)
    ctx.extra["distinct_real_traces"] = len(distinct)
    for rj in rejects:
        sc = byid[rj["id"]]
        line = rj["info"].get("line", {})
        sched = " ".join(s["d"] for s in sc["steps"])
        if line.get("ev") == "final" and line.get("atgate"):
            key = "deadlock:AssociatePeer(muState->notify.L)-vs-WaitForConnectednessChange(notify.L->muState)"
            what = "deadlock: threads %s wait for a lock forever (schedule %s; %s)" % (line.get("atgate"), sched, line.get("threads"))
        elif line.get("ev") == "final" and line.get("parked"):
            key = "missed-update:UpdateState-broadcast-without-notify.L"
            what = "missed update: waiter(s) %s parked while tracked status %s differs from what they last saw %s (schedule %s)" % (
                line.get("parked"), line.get("status"), line.get("cur"), sched)
        else:
            key = "conn:" + json.dumps(line, sort_keys=True)[:200]
            what = "connectedness tracker breaks C16 at step %s: %s" % (rj["at"], json.dumps(line, sort_keys=True)[:400])
        ctx.classify(key, what, {"script": sc, "observed": rj["events"], "rejected_line": line})
    for s in scripts[:1]:
        ctx.add_samples([{"scenario": {k: s["cfg"][k] for k in ("ops", "waiters", "calls", "cancel")},
                          "schedule": [x["d"] for x in s["steps"]], "observed_final": blocks.get(s["id"], [])[-1:]}], limit=2)
    if not replay:
        run_notify_users(ctx)
    ctx.assumptions += ["interleavings are explored at lock acquisitions and at the select of Notify.Wait only",
                        "the tracker is compiled from an instrumented copy of the current connectedness_manager.go in a scratch package"]
    return ctx.finish(level="model_checking",
                      rule="complete behaviours of Conn.tla (both locking variants; exhaustive for the small scenarios, -simulate walks to quiescence for the others) replayed as imposed schedules on the real tracker; non-trivial = some thread parked in select or failed a TryLock",
                      exhaustive=False,
                      technique="TLA+ gate-level spec Conn.tla model-checked by TLC; TLC behaviours replayed as controlled schedules on the real code; TLC trace validation against MonConn")
