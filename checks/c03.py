import metasig


def run(ctx, replay=None):
    return metasig.run_c03(ctx, replay)
