import json

import metasig


def run(ctx, replay=None):
    rp = json.load(open(replay)) if replay else None
    if rp and rp.get("family") == "storeemit":
        import storeemit
        storeemit.run_c03_part(ctx, rp)
        return ctx.finish(level="model_checking", rule="replay: store layer (MetadataStore emission / listing / index)", exhaustive=False,
                          technique="replay of one recorded store-layer script; TLC trace validation against MonStoreEmit")
    if not replay:
        # store layer: forged metadata entries on real replicas - emissions, listings, index vs a control replica
        finish = ctx.finish

        def finish_with_store_layer(**kw):
            ctx.finish = finish
            import storeemit
            storeemit.run_c03_part(ctx)
            kw["technique"] = kw.get("technique", "") + "; store layer: forged entries appended to real orbit-db logs, emissions, listings and index of the real MetadataStore (live and after reopen, against a control replica) judged by MonStoreEmit"
            return finish(**kw)
        ctx.finish = finish_with_store_layer
    return metasig.run_c03(ctx, replay)
