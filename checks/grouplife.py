"""The service's GROUP LIFECYCLE (service_group.go, api_group.go, service.go Close, group_context.go Activate / Close,
orbitdb.go OpenGroup / getGroupContext): specs/GroupLife.tla bound to the real code.  NOT one of the listed properties.

    run_part(ctx)   adds its TLC runs, replay counts, drift and ctx.extra["group_lifecycle"] to the given ctx and returns.
                    Nothing it finds raises a VIOLATION - with ONE exception: a PANIC of a service method (recovered in
                    the handler goroutine) is C19's statement; it is routed to ctx.violation (the coordinator hooks this
                    part into C19's thorough tier, so ctx.prop is "C19") after it reproduced on a solo re-run.
"""
import json, os, re, sys, threading, time
import vf

PKG = "."
FILES = ["vf_grouplife_verif_test.go", "zz_vfgl_verif.go"]
DRV = "^TestVerifGroupLife$"


# ------------------------------------------------------------------------------------------------ gates
def _insert_before_first(body, needle, gate, what):
    i = body.find(needle)
    if i < 0:
        return body, False
    return body[:i] + gate + body[i:], True


def _func_span(src, header):
    """(start, end) of the top-level function whose text starts with `header`"""
    i = src.find(header)
    if i < 0:
        return None
    m = re.search(r"^}\n", src[i:], re.M)
    if not m:
        return None
    return i, i + m.end()


def gated_sources(ctx):
    """copies of service_group.go / api_app.go with the gate calls of harness/root/zz_vfgl_verif.go inserted.
    Returns (replace-map, {gate: placed?}).  A gate that cannot be placed (the code was restructured) is left out: the
    scripts that need it are then replayed without that interleaving point and conformance will show it (drift)."""
    d = ctx.sub("gated")
    placed = {}
    rep = {}
    p = os.path.join(vf.REPO, "service_group.go")
    src = open(p).read()
    for fn, gate in (("func (s *service) deactivateGroup(", "deact"), ("func (s *service) activateGroup(", "act")):
        span = _func_span(src, fn)
        ok = False
        if span:
            body = src[span[0]:span[1]]
            body, ok = _insert_before_first(body, "\ts.lock.Lock()\n", '\tvfglGate("%s")\n' % gate, gate)
            src = src[:span[0]] + body + src[span[1]:]
        placed[gate] = ok
    out = os.path.join(d, "service_group.go")
    open(out, "w").write(src)
    rep["service_group.go"] = out
    p = os.path.join(vf.REPO, "api_app.go")
    src = open(p).read()
    n = 0
    for fn in ("func (s *service) AppMetadataSend(", "func (s *service) AppMessageSend("):
        span = _func_span(src, fn)
        if not span:
            continue
        body = src[span[0]:span[1]]
        m = re.search(r"\n(\s*)op, err := gc\.", body)
        if m:
            body = body[:m.start()] + '\n\tvfglGate("send")' + body[m.start():]
            n += 1
        src = src[:span[0]] + body + src[span[1]:]
    placed["send"] = n == 2
    out = os.path.join(d, "api_app.go")
    open(out, "w").write(src)
    rep["api_app.go"] = out
    # the cache go-orbit-db writes "_localHeads" to (orbitdb_datastore_cache.go): the copy hands out a datastore whose Put of that key
    # passes the gate "append" first, i.e. BETWEEN go-orbit-db's oplog.Append and its cache write in BaseStore.AddOperation (the
    # library itself cannot be touched: files of the module cache cannot be overlaid).  Only armed by scripts with cfg.libgate.
    p = os.path.join(vf.REPO, "orbitdb_datastore_cache.go")
    placed["append"] = False
    if os.path.exists(p):
        src = open(p).read()
        needle = "return datastoreutil.NewNamespacedDatastore(d.ds, datastore.NewKey(dbAddress.String())), nil"
        if src.count(needle) == 1:
            src = src.replace(needle, "return vfglGatedDS{datastoreutil.NewNamespacedDatastore(d.ds, datastore.NewKey(dbAddress.String()))}, nil")
            out = os.path.join(d, "orbitdb_datastore_cache.go")
            open(out, "w").write(src)
            rep["orbitdb_datastore_cache.go"] = out
            placed["append"] = True
    return rep, placed


def build_overlay(ctx):
    rep, placed = gated_sources(ctx)
    ov = ctx.overlay({PKG: FILES}, replace=rep)
    return ov, placed


# ------------------------------------------------------------------------------------------------ constants
MON = ("MonGroupLife", "Mon_GroupLife.cfg")
CONF = ("TraceGroupLife", "Trace_GroupLife.cfg")
ALLOPS = ["act", "deact", "info", "sendm", "sendd", "listm", "listd", "sub", "cancel", "create", "join", "accept", "close"]
IMPL = ["SendOnClosedOk", "StaleDeactDeletes", "ReactivateStacks"]
BUDGET_S = 8 * 60
# design-level invariant the code's choices break -> (named deviation, switch whose FALSE value repairs it or None)
BROKEN = {
    "NoWorkOnClosed": ("D1 an append on a context that was closed after the handler's lookup answers ok (the entry is in the log and is found after the next activation)", "SendOnClosedOk", True),
    "ViewIsLog": ("D1' the entry such a stale send appended to the closed context is the cached head but is not in the log of a context opened meanwhile: that context's listing misses an acknowledged send, and its own next append cuts the entry off for good", "SendOnClosedOk", False),
    "OpenIsOpened": ("D2 deactivateGroup closes the context it looked up before taking the lock but deletes whatever openedGroups holds when it has the lock (and clears accountGroupCtx): deactivate || (deactivate; activate) leaves a live, activated context that is not in openedGroups", "StaleDeactDeletes", False),
    "StreamFollows": ("D3 an open-ended listing subscribed before a deactivation neither ends nor follows the group to its next context: it ends when its client goes away", None, False),
    "SingleHandler": ("D4 activating a group that is already open calls ActivateGroupContext on the same context again: one more handler goroutine and peer tagger per call, every event handled once per call", "ReactivateStacks", False),
    "ClosedIsClosed": ("D5 an activation whose locked step runs after Close has returned leaves a group open in a closed service", None, False),
}
HOLD = ["TypeOK", "OpenedIsOpen", "AcctIsOpenedA", "OneLiveContext"]
HOLD_PROPS = ["ContactNeedsAccount", "LogsGrow"]
CLAUSE_TEXT = {
    "O1": "an entry of openedGroups is never a closed context",
    "O2": "accountGroupCtx is nil or the account group's entry, nil iff there is no entry",
    "O3": "with no request in flight every open context is in openedGroups",
    "O4": "a send that answered ok met its group opened (no request works on a closed context)",
    "O5": "a listing returns exactly the messages whose send answered ok (no lost events across deactivate / activate)",
    "O6": "a contact group is not activated while the account group is deactivated",
    "O7": "at most one handler goroutine per open context",
    "O8": "an open-ended listing whose group is no longer opened has ended",
    "O9": "no request hangs",
    "O10": "a group's metadata log never holds fewer entries than it was seen to hold (nothing lost by deactivate / activate); the recorded contact stays known",
    "L1": "after the service was closed no goroutine of the package is left and Close returned",
    "P1": "no request makes a service method panic (C19)",
}
EXPLAINED = {"O3": "D2/D5", "O4": "D1", "O5": "D1'", "O7": "D4", "O8": "D3"}


def _set(xs):
    return "{" + ", ".join('"%s"' % x for x in xs) + "}"


def st(c, op, g="-", lo=0):
    return {"act": "start", "x": c, "s": op, "d": g, "y": lo}


def sp(c):
    return {"act": "step", "x": c}


def run(*ops):
    return {"act": "run", "a": {"ops": [{"s": o[0], "d": (o[1] if len(o) > 1 else "-"), "y": (o[2] if len(o) > 2 else 0)} for o in ops]}}


CANCEL = {"act": "cancel"}

# hand-written scenarios (the counterexamples of the design level, the repository's race tests, the basic flows); always replayed
NAMED = [
    ("basic lifecycle, serial", [run(("info", "A")), run(("info", "M")), run(("info", "C")), run(("act", "C")), run(("sendm", "C")), run(("accept",)), run(("join",)), run(("act", "M")), run(("sendm", "M")), run(("sendd", "M")), run(("listd", "M")), run(("deact", "M")), run(("sendm", "M")), run(("act", "M")), run(("listm", "M")), run(("act", "M")), run(("deact", "A")), run(("act", "C")), run(("info", "C")), run(("accept",)), run(("act", "A")), run(("join",)), run(("close",))]),
    ("D1 send parked after its lookup, group deactivated, append on the closed context", [run(("join",)), run(("act", "M")), st(1, "sendm", "M"), st(2, "deact", "M"), sp(2), sp(1), st(1, "sendd", "M"), st(2, "act", "M"), sp(2), st(1, "sendd", "M"), st(2, "deact", "M"), sp(2), sp(1), st(2, "act", "M"), sp(2), st(2, "listd", "M")]),
    ("D1' stale send after the group was activated again: invisible to the new context, cut off by its next append, lost after the next cycle", [st(1, "sendm", "A"), st(2, "deact", "A"), sp(2), st(2, "act", "A"), sp(2), sp(1), run(("listm", "A")), run(("sendm", "A")), run(("listm", "A")), run(("deact", "A")), run(("act", "A")), run(("listm", "A"))]),
    ("D2 stale deactivate deletes the newer context's entry (multi-member group)", [run(("join",)), run(("act", "M")), run(("sendm", "M")), st(1, "deact", "M"), st(2, "deact", "M"), sp(2), st(2, "act", "M"), sp(2), sp(1), st(1, "sendm", "M"), st(1, "act", "M"), sp(1), st(1, "sendm", "M"), sp(1)]),
    ("D2 the same on the account group: accountGroupCtx nil beside a live account context", [st(1, "deact", "A"), st(2, "deact", "A"), sp(2), st(2, "act", "A"), sp(2), sp(1), st(1, "accept"), st(1, "act", "A"), sp(1), st(1, "accept")]),
    ("D3 open-ended listing across deactivate / activate / Close", [run(("join",)), run(("act", "M")), st(1, "sub", "M"), run(("sendm", "M")), run(("deact", "M")), run(("act", "M")), run(("sendm", "M")), CANCEL, st(1, "sub", "M"), run(("sendm", "M")), run(("close",))]),
    ("account group down: what is refused", [run(("accept",)), run(("accept",)), run(("deact", "A")), run(("join",)), run(("info", "M")), run(("act", "M")), run(("listm", "M")), run(("sendm", "A")), run(("act", "A", 1)), run(("sendm", "A")), run(("sendd", "A")), run(("listd", "A"))]),
    ("listing subscribed to a context, stale send on that closed context", [run(("join",)), run(("act", "M")), st(1, "sub", "M"), st(1, "sendm", "M"), st(2, "deact", "M"), sp(2), sp(1), CANCEL]),
    ("D5 Close while an activation is parked", [run(("join",)), st(1, "act", "M"), st(2, "close"), sp(2), sp(1)]),
    ("Close with three groups, activation in between", [run(("join",)), run(("act", "M")), run(("act", "C")), st(1, "act", "M"), st(2, "close"), sp(2), sp(2), sp(1), sp(2)]),
    ("create with the account group deactivated at its gate", [st(1, "create"), st(2, "deact", "A"), sp(2), sp(1), st(1, "sendm", "M"), sp(1), st(1, "join")]),
    ("concurrent pairs (TestRaceReactivate*)", [run(("join",)), run(("act", "M"), ("act", "M")), run(("deact", "M"), ("act", "M")), run(("deact", "A"), ("act", "A")), run(("deact", "A"), ("deact", "A")), run(("act", "A"), ("act", "C")), run(("sendm", "M"), ("deact", "M")), run(("close",), ("act", "M"))]),
    ("TestRaceReactivateAccountGroup shape: deactivate || activate, then use the account", [run(("deact", "A"), ("act", "A")), run(("act", "A")), run(("accept",)), run(("act", "C")), run(("sendm", "C")), run(("listm", "C"))]),
    ("TestRaceReactivateContactGroup shape", [run(("accept",)), run(("act", "C")), run(("sendm", "C")), run(("deact", "C"), ("act", "C")), run(("act", "C")), run(("sendm", "C")), run(("listm", "C"))]),
]


def _parallel(jobs, width):
    res, err = [None] * len(jobs), []
    sem = threading.Semaphore(width)

    def work(i, f):
        with sem:
            try:
                res[i] = f()
            except BaseException as e:      # noqa
                err.append(e)
    ts = [threading.Thread(target=work, args=(i, f)) for i, f in enumerate(jobs)]
    for t in ts:
        t.start()
    for t in ts:
        t.join()
    if err:
        raise err[0]
    return res


def _trace_summary(out):
    """a TLC counterexample as the list of actions (compact, for the evidence file)"""
    return [m.group(1) for m in re.finditer(r"^State \d+: <(\w+\([^)]*\)|\w+) line", out, re.M)]


# ------------------------------------------------------------------------------------------------ design level
def design_level(ctx, gl):
    quick = ctx.tier == "quick"
    base = {"MaxReq": "3" if quick else "4"}
    jobs = []

    def mc(name, consts, inv, props, workers=2):
        def f():
            text = open(os.path.join(vf.SPECS, "MC_GroupLife.cfg")).read()
            text = re.sub(r"^INVARIANTS.*$", "INVARIANTS " + " ".join(inv or ["TypeOK"]), text, flags=re.M)
            text = re.sub(r"^PROPERTIES.*\n", ("PROPERTIES " + " ".join(props) + "\n") if props else "", text, flags=re.M)
            tmp = "vfrun_gl_%s.cfg" % name
            with open(os.path.join(ctx.sub("glcfg"), tmp), "w") as fh:
                fh.write(text)
            return ctx.tlc("GroupLife", os.path.relpath(os.path.join(ctx.sub("glcfg"), tmp), vf.SPECS), name="gl_" + name, workers=workers,
                           consts=consts, allow_violation=True, timeout=600, count=False, heap="4g")
        jobs.append((name, f))

    mc("code", base, HOLD, HOLD_PROPS, workers=3)
    for inv in sorted(BROKEN):
        isprop = BROKEN[inv][2]
        mc("broken_" + inv, {"MaxReq": "3"}, None if isprop else [inv], [inv] if isprop else None, workers=1)
    rep = {k: "FALSE" for k in IMPL}
    rep["MaxReq"] = "3"
    mc("repaired", rep, HOLD + [i for i in sorted(BROKEN) if BROKEN[i][1] and not BROKEN[i][2]], HOLD_PROPS + [i for i in sorted(BROKEN) if BROKEN[i][1] and BROKEN[i][2]], workers=2)
    res = _parallel([f for _, f in jobs], 4)
    out = {}
    for (name, _), r in zip(jobs, res):
        ctx.states += r.distinct
        ctx.transitions += r.generated
        rec = {"distinct": r.distinct, "generated": r.generated, "depth": r.depth, "wall_s": round(r.wall, 1), "violated": r.violated}
        if name in ("code", "repaired"):
            if not r.ok:
                raise vf.Infra("GroupLife.tla (%s) must satisfy its invariants: %s\n%s" % (name, r.violated, "\n".join(r.out.splitlines()[-30:])))
        else:
            inv = name[len("broken_"):]
            if r.violated != inv:
                raise vf.Infra("vacuity guard: the model of the code does not break %s (%s)" % (inv, r.violated))
            rec["explained_by"] = BROKEN[inv][0]
            rec["counterexample"] = _trace_summary(r.out)
        out[name] = rec
    gl["design_level"] = out
    gl["states"], gl["distinct_states"], gl["diameter"] = out["code"]["generated"], out["code"]["distinct"], out["code"]["depth"]


# ------------------------------------------------------------------------------------------------ scripts
def gen(ctx, gl):
    quick = ctx.tier == "quick"
    # (name, opkinds, groups, maxreq, maxlen, simulate walks or None = exhaustive, keep)
    plans = [
        ("aa", ["act", "deact"], ["A"], 3, 12, None, 60),
        ("mm", ["join", "act", "deact", "sendm", "listm"], ["M"], 6, 20, 300, 60),
        ("ac", ["accept", "act", "deact", "info"], ["A", "C"], 6, 20, 300, 60),
        ("cl", ["join", "act", "deact", "sendm", "close"], ["A", "M"], 7, 22, 300, 60),
        ("sm", ["join", "act", "deact", "sendm", "sub", "cancel"], ["M"], 7, 22, 300, 50),
        ("cr", ["create", "deact", "act", "sendd", "listd", "info"], ["A", "M"], 6, 20, 300, 50),
        ("all", ALLOPS, ["A", "C", "M"], 8, 26, 400, 80),
    ]
    if quick:
        plans = [(n, o, g, mr, ml, (w if w is None else w // 4), k // 4) for (n, o, g, mr, ml, w, k) in plans]
    jobs = []
    for (name, ops, groups, mr, ml, walks, keep) in plans:
        consts = {"OpKinds": _set(ops), "ReqG": _set(groups), "MaxReq": str(mr), "MaxLen": str(ml)}
        jobs.append(lambda name=name, consts=consts, walks=walks, ml=ml: ctx.tlc(
            "GenGroupLife", "Gen_GroupLife.cfg", name="gl_gen_" + name, workers=1 if walks else 2,
            simulate=("num=%d" % walks) if walks else None, depth=(ml + 2) if walks else None, consts=consts, timeout=400, count=False, heap="3g"))
    res = _parallel(jobs, 4)
    scripts = [{"id": 0, "cfg": {"plan": "named", "name": n}, "steps": s} for (n, s) in NAMED]
    per = {}
    for (name, ops, groups, mr, ml, walks, keep), r in zip(plans, res):
        hs = r.printed.get("SCRIPT", [])
        # client symmetry / localOnly variants: keep one representative per shape where client 1 moves first
        hs = [h for h in hs if h and h[0]["x"] in (0, 1)]
        # a complete behaviour that is the prefix of a longer complete one (cancel steps) adds nothing
        sc = vf.scripts_from_tlc(hs, cfg={"plan": name}, limit=keep, rng=ctx.rng)
        for s_ in sc:
            s_["steps"] = [{"act": x["act"], "x": x["x"], "s": x["s"], "d": x["d"], "y": x["y"]} for x in s_["steps"]]
        per[name] = {"printed": len(hs), "kept": len(sc), "exhaustive": walks is None}
        scripts += sc
    gl["generated"] = per
    return scripts


def random_scripts(rng, n, length):
    """model-independent layer: random request sequences, singles and concurrent pairs (ungated, joined), a stream now and then"""
    out = []
    G3 = ["A", "C", "M"]
    for k in range(n):
        steps, joined, created, closed, strm = [], False, False, False, False
        focus = rng.choice([G3, ["A"], ["M", "A"], ["C", "A"], G3])

        def one(avoid_m=False):
            nonlocal joined, created
            gs = [g for g in focus if not (avoid_m and g == "M")] or ["A"]
            g = rng.choice(gs)
            kind = rng.choices(["act", "deact", "info", "sendm", "sendd", "listm", "listd", "join", "accept", "create"],
                               weights=[6, 5, 2, 3, 1, 2, 1, 2 if "M" in focus else 0, 2 if "C" in focus else 0, 1 if "M" in focus else 0])[0]
            if kind == "create" and (joined or created or avoid_m):
                kind = "act"
            if kind == "join":
                if avoid_m:
                    kind = "deact"
                else:
                    joined = True
                    return ("join",)
            if kind == "create":
                created = True
                return ("create",)
            if kind == "accept":
                return ("accept",)
            if kind == "act":
                return ("act", g, rng.choice([0, 0, 1]))
            return (kind, g)
        while len(steps) < length and not closed:
            x = rng.random()
            if x < 0.06 and not strm:
                steps.append(st(1, "sub", rng.choice(focus)))
                strm = True
            elif x < 0.10 and strm:
                steps.append(CANCEL)
                strm = False
            elif x < 0.14 and len(steps) > 3:
                o = one()
                if o[0] in ("create", "join"):
                    steps.append(run(o))
                else:
                    steps.append(run(("close",), o) if rng.random() < 0.5 else run(("close",)))
                    closed = True
            elif x < 0.55:
                a = one()
                if a[0] == "create":
                    b = one(avoid_m=True)
                else:
                    b = one()
                    if b[0] == "create" and (a[0] == "join" or (len(a) > 1 and a[1] == "M")):
                        b = ("deact", "A")
                # two concurrent joins / accepts of the same group / contact both pass the handler's state check and both append
                # (check-then-act without a lock, D7): GroupLife.tla has these requests atomic, such pairs are not generated
                if a[0] == b[0] and a[0] in ("join", "accept"):
                    b = ("act", "A", 0)
                steps.append(run(a, b))
            else:
                steps.append(run(one()))
        out.append(steps)
    return out


# ------------------------------------------------------------------------------------------------ replay
def _run_chunk(ctx, binary, scripts, d, tag, timeout):
    """one driver process over `scripts` (sequential, one service per script).  Returns (events, finished?, output tail)"""
    import subprocess
    sp_, tp = os.path.join(d, "scripts_%s.ndjson" % tag), os.path.join(d, "trace_%s.ndjson" % tag)
    vf.write_ndjson(sp_, scripts)
    if os.path.exists(tp):
        os.remove(tp)
    e = ctx.go_env({"VERIF_SCRIPTS": sp_, "VERIF_TRACE_OUT": tp})
    lf = os.path.join(d, "out_%s.txt" % tag)
    with open(lf, "w") as fh:
        try:
            p = subprocess.run([binary, "-test.run", DRV, "-test.count=1", "-test.timeout", "%ds" % timeout], cwd=vf.REPO, env=e,
                               stdout=fh, stderr=subprocess.STDOUT, timeout=timeout + 60)
            rc = p.returncode
        except subprocess.TimeoutExpired:
            rc = -9
    out = open(lf, errors="replace").read()
    if "VERIF-INFRA" in out:
        raise vf.Infra("driver infrastructure error:\n" + "\n".join([l for l in out.splitlines() if "VERIF-INFRA" in l][:5]))
    evs = vf.read_ndjson(tp) if os.path.exists(tp) else []
    return evs, ("VERIF-DONE" in out), out[-6000:], rc


def replay(ctx, binary, scripts, name, shards, gl, timeout=900):
    """sharded replay; a process that dies is C19's concern: the script it died in is re-run alone (see run_part)"""
    d = ctx.sub("gl_drv_" + name)
    chunks = [scripts[i::shards] for i in range(shards)]
    chunks = [c for c in chunks if c]
    events, crashes = [], []

    def work(i, part):
        todo, evs_all, crashed = list(part), [], []
        rounds = 0
        while todo and rounds < 4:
            rounds += 1
            evs, fin, tail, rc = _run_chunk(ctx, binary, todo, d, "%d_%d" % (i, rounds), timeout)
            blocks = vf.split_traces(evs)
            done_ids = [b for b, _ in blocks]
            for e in evs:
                evs_all.append(e)
            if fin:
                todo = []
                break
            # the process died (or timed out) in the first script that has no block
            rest = [s_ for s_ in todo if s_["id"] not in done_ids]
            if not rest:
                break
            crashed.append({"script": rest[0], "tail": tail, "rc": rc})
            todo = rest[1:]
        return evs_all, crashed
    res = _parallel([lambda i=i, c=c: work(i, c) for i, c in enumerate(chunks)], shards)
    for evs, cr in res:
        events.extend(evs)
        crashes.extend(cr)
    return events, crashes


# ------------------------------------------------------------------------------------------------ validation
def _tlc_trace(ctx, mod, events, name, collect=False, strict=True, timeout=600):
    d = ctx.sub("gl_val_" + name)
    tp = os.path.join(d, "trace.ndjson")
    vf.write_ndjson(tp, events)
    env = {"VERIF_TRACE": tp, "VERIF_STRICT": "1" if strict else "0"}
    if collect:
        env["VERIF_COLLECT"] = "1"
    r = ctx.tlc(mod[0], mod[1], name="gl_" + name, workers=1, env=env, timeout=timeout, allow_violation=True, count=False, heap="4g")
    rej = r.printed.get("REJECTED")
    if r.violated is None and r.error is None and r.rc == 0 and not rej:
        return True, None, r
    if rej:
        return False, rej[0], r
    if r.violated and r.violated != "Postcondition":
        return False, {"invariant": r.violated}, r
    raise vf.Infra("trace validation broke (%s): %s\n%s" % (mod[0], r.error or r.violated, "\n".join(r.out.splitlines()[-30:])))


def _flat(blocks):
    flat, index = [], []
    for bid, evs in blocks:
        index.append((len(flat), bid))
        flat.append({"ev": "reset", "id": bid})
        flat.extend(evs)
    return flat, index


def _slim(e):
    """what TLC reads of a line (stacks and messages stay in the python side)"""
    e = {k: v for k, v in e.items() if k not in ("msg", "site", "stack", "left")}
    if "ops" in e:
        e["ops"] = [{k: v for k, v in o.items() if k not in ("msg", "site", "stack")} for o in e["ops"]]
    return e


def conformance(ctx, blocks, name, max_rejects=8):
    """full spec, strict: returns (accepted ids, [drift records])"""
    cur, drift, rounds = [(b, [_slim(e) for e in evs]) for b, evs in blocks], [], 0
    while cur:
        rounds += 1
        flat, index = _flat(cur)
        ok, info, _ = _tlc_trace(ctx, CONF, flat, "%s_conf%d" % (name, rounds))
        if ok:
            break
        if "high" not in info:
            raise vf.Infra("an invariant of the specification failed on an observed trace: %s" % info)
        pos = info["high"]
        bi = max(i for i, (start, _) in enumerate(index) if start <= pos)
        bid, evs = cur[bi]
        drift.append({"id": bid, "at": pos - index[bi][0] - 1, "line": info.get("line")})
        cur = cur[:bi] + cur[bi + 1:]
        if len(drift) >= max_rejects:
            cur = cur[:bi]      # the rest is not claimed as validated
            break
    return [b for b, _ in cur], drift


def monitor(ctx, blocks, name):
    """design clauses on the observed values, collect mode: [(script id, line in block, clauses, line)]"""
    flat, index = _flat([(b, [_slim(e) for e in evs]) for b, evs in blocks])
    ok, info, r = _tlc_trace(ctx, MON, flat, name + "_mon", collect=True, strict=False)
    if not ok:
        raise vf.Infra("monitor did not consume the trace: %s" % str(info)[:400])
    out = []
    for b in r.printed.get("BAD", []):
        pos = b["at"] - 1
        bi = max(i for i, (start, _) in enumerate(index) if start <= pos)
        out.append((index[bi][1], pos - index[bi][0] - 1, sorted(b["clauses"]), b["line"]))
    return out


def _text(script):
    def one(s_):
        if s_["act"] == "run":
            return "run[" + " || ".join("%s(%s)" % (o["s"], ",".join(str(v) for v in (o["d"], o.get("y", 0)) if v not in ("-", 0))) for o in s_["a"]["ops"]) + "]"
        if s_["act"] == "start":
            return "c%d:%s(%s)" % (s_["x"], s_["s"], ",".join(str(v) for v in (s_["d"], s_.get("y", 0)) if v not in ("-", 0)))
        if s_["act"] == "step":
            return "c%d:step" % s_["x"]
        return s_["act"]
    return " ".join(one(s_) for s_ in script["steps"])


def _panics(evs):
    """recovered panics of service methods in a block: [(line index, op, g, message, site, stack)]"""
    out = []
    for i, e in enumerate(evs):
        reqs = e.get("ops") or ([e] if e.get("ev") in ("start", "step") else [])
        for o in reqs:
            if o.get("r") == "panic":
                out.append((i, o.get("op"), o.get("g"), o.get("msg", ""), o.get("site", ""), o.get("stack", "")))
        st_ = e.get("st") or {}
        for g, v in (st_.get("lst") or {}).items():
            if v == -2:
                out.append((i, "listm(probe)", g, "panic in GroupMessageList", "", ""))
    return out


# ------------------------------------------------------------------------------------------------ D6 demonstration
def stn(c, y):
    return {"act": "step", "x": c, "y": y}


# two AppMetadataSend on one group; the first is held between go-orbit-db's oplog.Append and its write of "_localHeads" (gate "append"
# in the cache datastore), the second runs through, then the first writes its (older) head over it.  Steps with y=1 do not block: with
# appends serialised (a repaired store) the second request waits for the first and the same script still terminates.
D6_SCRIPT = [run(("join",)), run(("act", "M")), run(("sendd", "M")), st(1, "sendd", "M"), sp(1), st(2, "sendd", "M"), stn(2, 1), stn(2, 1), sp(1), stn(2, 1), stn(2, 1),
             run(("listd", "M")), run(("deact", "M")), run(("act", "M")), run(("listd", "M")), run(("sendd", "M")), run(("deact", "M")), run(("act", "M")), run(("listd", "M"))]


def log_loss_demo(ctx, binary, gl, placed):
    if not placed.get("append"):
        gl["log_loss_demo"] = {"skipped": "the gate in orbitdb_datastore_cache.go could not be placed"}
        return
    evs, crashes = replay(ctx, binary, [{"id": 0, "cfg": {"libgate": True, "plan": "D6"}, "steps": D6_SCRIPT}], "d6", 1, gl)
    b = dict(vf.split_traces(evs)).get(0, [])
    reqs = [o for e in b for o in (e.get("ops") or ([e] if e.get("ev") in ("start", "step") else []))]
    if crashes or not b or any(o.get("r") in ("panic", "hang") for o in reqs):
        gl["log_loss_demo"] = {"skipped": "the demonstration script did not run through", "replies": [o.get("r") for o in reqs]}
        ctx.drift.append({"trace": "group_lifecycle", "what": "log-loss demonstration did not run through", "replies": [o.get("r") for o in reqs][:30]})
        return
    lists = [(i, e["ops"][0]["n"]) for i, e in enumerate(b) if e.get("ev") == "run" and e["ops"][0]["op"] == "listd"]
    out = {"script": _text({"steps": D6_SCRIPT}), "gates_seen": [o["r"] for o in reqs if str(o.get("r", "")).startswith(("at:", "blocked"))], "listings": []}
    lost = 0
    for (i, n) in lists:
        oks = sum(1 for e in b[:i] for o in (e.get("ops") or ([e] if e.get("ev") in ("start", "step") else [])) if o.get("op") == "sendd" and o.get("r") == "ok")
        out["listings"].append({"acknowledged_sends": oks, "listed": n})
        lost = max(lost, oks - n)
    out["acknowledged_entries_missing_after_reactivation"] = lost
    out["reproduced"] = lost > 0
    out["what"] = ("D6 two appends to one group's store overlap (go-orbit-db BaseStore.AddOperation: oplog.Append, then Put(_localHeads, [that entry]) with no lock "
                   "around the two; weshnet does not serialise the callers - two clients, or a client and the context's own handler goroutine): the cache can "
                   "end up naming the OLDER entry as the only local head, and after the next deactivate / activate (or restart) the acknowledged newer entry is "
                   "not in the log any more.  Also seen without any gate (about 1 in 250 plain account-group reactivations at load 40: the contact request "
                   "recorded during set-up was gone).")
    gl["log_loss_demo"] = out


# ------------------------------------------------------------------------------------------------ entry
def run_part(ctx, replay_obj=None):
    t0 = time.time()
    quick = ctx.tier == "quick"
    gl = {"module": "service group lifecycle (not a listed property: findings are observations / drift; a recovered panic is routed to C19)",
          "degraded": []}
    ctx.extra["group_lifecycle"] = gl
    ov, placed = build_overlay(ctx)
    gl["gates_placed"] = placed
    binres = {}

    def build():
        binres["bin"] = ctx.go_test_compile(PKG, ov, name="grouplife")
    bt = threading.Thread(target=lambda: _guard(build, binres))
    bt.start()
    if replay_obj is None:
        design_level(ctx, gl)
        scripts = gen(ctx, gl)
        nrand = 25 if quick else 120
        scripts += [{"id": 0, "cfg": {"plan": "random"}, "steps": s_} for s_ in random_scripts(ctx.rng, nrand, 10 if quick else 14)]
    else:
        scripts = [replay_obj["script"]]
    for i, s_ in enumerate(scripts):
        s_["id"] = i
    bt.join()
    if binres.get("err"):
        raise binres["err"]
    gl["wall_design_gen_build_s"] = round(time.time() - t0, 1)
    # degrade: what is left of the budget decides how many scripts are replayed (about 2.5 s per script and shard at moderate load)
    shards = 4 if quick else 6
    left = BUDGET_S - (time.time() - t0) - 60
    cap = max(len(NAMED), int(max(left, 30) / 3.0 * shards))
    if replay_obj is None and len(scripts) > cap:
        keep = scripts[:len(NAMED)] + sorted(ctx.rng.sample(scripts[len(NAMED):], cap - len(NAMED)), key=lambda s_: s_["id"])
        gl["degraded"].append("replayed %d of %d generated scripts (time budget)" % (len(keep), len(scripts)))
        scripts = keep
    sid = {s_["id"]: s_ for s_ in scripts}

    t1 = time.time()
    events, crashes = replay(ctx, binres["bin"], scripts, "main", shards, gl)
    byid = dict(vf.split_traces(events))
    gl["wall_replay_s"] = round(time.time() - t1, 1)
    blocks = [(s_["id"], byid[s_["id"]]) for s_ in scripts if s_["id"] in byid and byid[s_["id"]] and byid[s_["id"]][-1].get("ev") == "end"]
    gl["scripts_replayed"] = len(blocks)
    gl["steps_replayed"] = sum(len(e) - 2 for _, e in blocks)
    gl["concurrent_pairs"] = sum(1 for _, e in blocks for x in e if x.get("ev") == "run" and len(x["ops"]) == 2)
    gl["gated_steps"] = sum(1 for _, e in blocks for x in e if x.get("ev") in ("start", "step"))
    ctx.evaluations += len(blocks)
    if len(blocks) + len(crashes) < len(scripts) - 2:
        raise vf.Infra("driver did not record every script (%d of %d)" % (len(blocks), len(scripts)))

    # ---- C19: a recovered panic of a service method, or a request that kills the process; only after a solo reproduction
    gl["panics"] = []
    suspects = []
    for bid, evs in blocks:
        for p in _panics(evs):
            suspects.append((bid, "recovered panic in %s(%s) at %s: %s" % (p[1], p[2], p[4], p[3]), p))
            break
    for c in crashes:
        suspects.append((c["script"]["id"], "the driver process died while script ran: " + " | ".join(l for l in c["tail"].splitlines() if l.startswith(("panic:", "fatal error:")))[:300], None))
    for (bid, what, p) in suspects[:6]:
        ev2, cr2 = replay(ctx, binres["bin"], [sid[bid]], "solo%d" % bid, 1, gl)
        b2 = dict(vf.split_traces(ev2)).get(bid, [])
        again = bool(_panics(b2)) or bool(cr2)
        rec = {"script": _text(sid[bid]), "what": what, "reproduced": again}
        gl["panics"].append(rec)
        if again:
            ctx.violation("group lifecycle: a request makes a service method panic (%s); script: %s" % (what, _text(sid[bid])),
                          {"family": "group_lifecycle", "part": "group_lifecycle", "script": sid[bid], "observed": b2 or byid.get(bid, []),
                           "stack": (p[5] if p else (cr2[0]["tail"][-1500:] if cr2 else ""))})
        else:
            ctx.drift.append({"trace": "group_lifecycle", "what": "panic / process death not reproduced on a solo run: " + what, "script": rec["script"]})

    if replay_obj is None:
        log_loss_demo(ctx, binres["bin"], gl, placed)

    # ---- conformance (drift) and the design clauses on observed values (observations)
    t2 = time.time()
    accepted, drift = conformance(ctx, blocks, "gl")
    acc = set(accepted)
    gl["traces_accepted_full_spec"] = len(accepted)
    gl["traces_rejected_full_spec"] = len(drift)
    ctx.traces_validated += len(accepted)
    ctx.extra["conformant_traces"] = ctx.extra.get("conformant_traces", 0) + len(accepted)
    for dr in drift:
        rec = {"trace": "group_lifecycle", "script": _text(sid[dr["id"]]), "info": {"step": dr["at"], "line": {k: v for k, v in (dr["line"] or {}).items() if k != "st"},
               "st": (dr["line"] or {}).get("st")}}
        ctx.drift.append(rec)
        vf.log("model drift (group lifecycle) script %s step %s: %s" % (dr["id"], dr["at"], json.dumps(rec["info"]["line"], sort_keys=True)[:300]))
    if drift:
        gl["first_rejected"] = {"script": _text(sid[drift[0]["id"]]), "step": drift[0]["at"], "line": drift[0]["line"]}
    bad = monitor(ctx, blocks, "gl")
    obs = {}
    for (bid, at, clauses, line) in bad:
        for c in clauses:
            if c == "P1":
                continue        # handled above (solo reproduction)
            o = obs.setdefault(c, {"clause": CLAUSE_TEXT[c], "lines": 0, "scripts": set(), "in_conformant_traces": 0, "explained_by": EXPLAINED.get(c)})
            o["lines"] += 1
            o["scripts"].add(bid)
            if bid in acc:
                o["in_conformant_traces"] += 1
    # goroutines left after Close: explained where the trace is a behaviour of the model and the model itself leaves a live context
    # outside openedGroups (D2: seen as O3 in the same trace) or the script races Close with an activation (D5)
    o3 = set(b for (b, _, cl, _) in bad if "O3" in cl)
    if "L1" in obs:
        l1 = set(b for (b, _, cl, _) in bad if "L1" in cl)
        unexpl = sorted(b for b in l1 if not (b in acc and (b in o3 or "close" in _text(sid[b]))))
        obs["L1"]["explained_by"] = None if unexpl else "D2/D5 (Close only deactivates what openedGroups holds)"
        if unexpl:
            obs["L1"]["scripts"] = set(unexpl)
    for c, o in sorted(obs.items()):
        first = min(o["scripts"])
        o["first_script"] = _text(sid[first])
        nonconf = sorted(b for b in o["scripts"] if b not in acc)
        o["scripts"] = len(o["scripts"])
        if o["explained_by"] is None or nonconf:
            # a clause the model of the code satisfies fails on the real code (or fails outside the behaviours of the model): drift
            w = nonconf[0] if nonconf else first
            ctx.drift.append({"trace": "group_lifecycle", "clause": c, "what": CLAUSE_TEXT[c], "script": _text(sid[w]),
                              "note": "unexplained by the named deviations of GroupLife.tla" if o["explained_by"] is None else "seen in a trace the full spec rejects"})
    gl["observations"] = obs
    ends = [e[-1] for _, e in blocks]
    gl["goroutines_left_after_close"] = {"max_immediately": max([x["leak1"] - x["leak0"] for x in ends] or [0]),
                                         "max_settled": max([x["leak2"] - x["leak0"] for x in ends] or [0]),
                                         "frames": sorted(set(f for x in ends for f in x.get("left", [])))[:8]}
    ctx.distinct_nontrivial += len(set(b for (b, _, _, _) in bad))
    if not quick and accepted and replay_obj is None:
        if time.time() - t0 < BUDGET_S - 45:
            gl["binding_selftest"] = selftest(ctx, [(b, e) for b, e in blocks if b in acc])
        else:
            gl["degraded"].append("binding self-test skipped (time budget)")
    gl["wall_validation_s"] = round(time.time() - t2, 1)
    gl["wall_s"] = round(time.time() - t0, 1)
    if len(ctx.samples) < 8:
        ctx.samples.append("group lifecycle: %d scripts replayed on a real service (%d gated steps, %d concurrent pairs), %d accepted by GroupLife.tla, observations %s" % (
            len(blocks), gl["gated_steps"], gl["concurrent_pairs"], len(accepted), {c: o["scripts"] for c, o in sorted(obs.items())}))


def _guard(f, box):
    try:
        f()
    except BaseException as e:      # noqa
        box["err"] = e


def selftest(ctx, good):
    """corrupt one observed field of one line / drop one line: the full spec must reject both"""
    cand = [(b, e) for b, e in good if any(x.get("ev") == "step" and x.get("op") == "deact" and x.get("r") == "ok" for x in e)]
    if not cand:
        return {"skipped": "no accepted trace with a gated deactivation"}
    bid, evs = cand[0]
    evs = [_slim(x) for x in evs]
    k = next(i for i, x in enumerate(evs) if x.get("ev") == "step" and x.get("op") == "deact" and x.get("r") == "ok")
    cor = json.loads(json.dumps(evs))
    g = cor[k]["g"]
    cor[k]["st"]["op"][g] = not cor[k]["st"]["op"][g]
    ok, _, _ = _tlc_trace(ctx, CONF, _flat([(bid, cor)])[0], "self_corrupt")
    drop = evs[:k] + evs[k + 1:]
    ok2, _, _ = _tlc_trace(ctx, CONF, _flat([(bid, drop)])[0], "self_drop")
    if ok or ok2:
        raise vf.Infra("binding self-test: the full spec accepted a corrupted (%s) / truncated (%s) trace" % (ok, ok2))
    return {"corrupted_field_rejected": True, "dropped_line_rejected": True}
