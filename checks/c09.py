import ratchetstore


def run(ctx, replay=None):
    return ratchetstore.run_c09(ctx, replay)
