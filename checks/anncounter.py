"""C05 at any counter through the store path (group.go filter, group_context.go listing): a sender that has published
c messages announces to a member; the recipient's side must accept exactly that announcement (MonAnnCounter.tla)."""
import json
import vf


def run_part(ctx):
    quick = ctx.tier == "quick"
    ov = ctx.overlay({".": ["vf_replica_verif_test.go", "vf_anncounter_verif_test.go"]})
    counts = [0, 1, 2, 127, 128, 129, 300] if quick else [0, 1, 2, 3, 63, 64, 127, 128, 129, 255, 256, 300, 1000, 16383, 16384, 20000]
    scripts = [{"id": i, "cfg": {"count": c}, "steps": []} for i, c in enumerate(counts)]
    events, _ = vf.run_driver(ctx, ".", "^TestVerifAnnCounter$", ov, scripts, "anncounter", timeout=1500)
    acc, rejects = vf.validate_blocks(ctx, ("MonAnnCounter", "Mon_AnnCounter.cfg"), events, "anncounter")
    ctx.evaluations += len(scripts)
    ctx.distinct_nontrivial += len(scripts)
    ctx.extra["announcement_counters"] = counts
    for rj in rejects:
        line = rj["info"].get("line", {})
        ctx.violation("announcement sealed after %s published messages is not handed over / registered exactly at its recipient: %s" % (
            line.get("count"), json.dumps(line, sort_keys=True)[:400]), {"script": scripts[rj["id"]], "rejected_line": line, "family": "anncounter"})
