"""C05: chain-key announcements.
(a) confidentiality / binding  - specs/Announce.tla bound to GetShareableChainKey / RegisterChainKey / IsChainKeyKnownForDevice
(b) exactness                  - specs/Ratchet.tla (reused from C02): an announcement made at counter a registers exactly reg = a
(c) completeness among active members - to be appended (needs orbit-db peers): add a function to PARTS.

Every part has the signature part(ctx, info, replay_obj=None): it runs its model checking, replay and trace
validation, reports through ctx.violation(...) and adds its numbers to ctx / info; run() calls ctx.finish once."""
import json
import vf
import ratchet   # helpers of the C02/C14 check (not modified)

PKG = "pkg/secretstore"
# one overlay (one compiled test package) for both drivers
FILES = ["vf_world_verif_test.go", "vf_announce_verif_test.go"] + [f for f in ratchet.FILES if f != "vf_world_verif_test.go"]
A_MON = ("MonAnnounce", "Mon_Announce.cfg")
A_CONF = ("TraceAnnounce", "Trace_Announce.cfg")
A_DRV = "^TestVerifAnnounceReplay$"


# ------------------------------------------------------------------ (a)
def part_a(ctx, info, replay_obj=None):
    ov = ctx.overlay({PKG: FILES})
    if replay_obj is not None:
        scripts = [replay_obj["script"]]
    else:
        # design level: with the nonce bound to the group id only the legitimate attempt registers ...
        ctx.tlc_expect_ok("Announce", "MC_Announce.cfg", name="a_mc_nonce_bound", workers=2, consts={"NonceBound": "TRUE"})
        # ... and with a constant nonce TLC finds the account/contact confusion (same keys, other group)
        r = ctx.tlc("Announce", "MC_Announce.cfg", name="a_mc_constant_nonce", workers=2, consts={"NonceBound": "FALSE"}, allow_violation=True)
        if r.violated is None:
            raise vf.Infra("vacuity guard: Announce.tla does not distinguish a group-bound nonce from a constant one")
        info["design_level"]["a_constant_nonce_violates"] = r.violated
        r = ctx.tlc("GenAnnounce", "Gen_Announce.cfg", name="a_gen", workers=2, timeout=900)
        scripts = vf.scripts_from_tlc(r.printed.get("SCRIPT", []), cfg={"part": "a"})
        if ctx.tier == "quick":
            # all damaged and all accepted attempts, and a seeded half of the refused undamaged ones
            def mkey(a, g):
                return ("m.gm." if g == "gm" else "acct.") + a

            def dkey(st, g):
                return ("d.gm." if g == "gm" else "dev.") + st

            def essential(s):
                an, rg = s["steps"][0]["a"], s["steps"][-1]["a"]
                # right recipient key and right claimed sender (the nonce alone has to tell the groups apart)
                same_keys = mkey(rg["o"][0], rg["g"]) == mkey(an["r"], an["g"]) and rg["c"] == dkey(an["s"], an["g"])
                return any(x["act"] == "damage" for x in s["steps"]) or s["steps"][-1]["res"]["ok"] or same_keys
            keep = [s for s in scripts if essential(s)]
            rest = [s for s in scripts if not essential(s)]
            keep += ctx.rng.sample(rest, len(rest) // 2)
            scripts = sorted(keep, key=lambda s: s["id"])
    if not scripts:
        raise vf.Infra("no announcement scripts generated")
    byid_sc = {s["id"]: s for s in scripts}
    events, _ = vf.run_driver(ctx, PKG, A_DRV, ov, scripts, "announce", timeout=1500)
    byid = dict(vf.split_traces(events))
    if set(byid) != set(byid_sc):
        raise vf.Infra("announcement driver did not record every script")
    acc, rejects = vf.validate_blocks(ctx, A_MON, events, "announce", conf=A_CONF, timeout=1500)
    ctx.evaluations += len(scripts)
    regs = [e for e in events if e.get("ev") == "register"]
    legit = sum(1 for e in regs if e["ok"])
    # non-trivial: the attempt got at least two of the three bindings right (or all: accepted)
    for s in scripts:
        ev = [e for e in byid[s["id"]] if e.get("ev") == "register"]
        if any((e["holds"] + e["csend"] + e["sameg"]) >= 2 for e in ev):
            ctx.distinct_nontrivial += 1
    info["parts"]["a"] = {"scripts": len(scripts), "register_attempts": len(regs), "accepted": legit,
                          "bit_flips": sum(1 for e in regs if "bit" in e), "truncations": sum(1 for e in regs if "cut" in e),
                          "same_keys_other_group_attempts": sum(1 for e in regs if e["holds"] and e["csend"] and not e["sameg"] and e["tam"] == "none")}
    for rj in rejects:
        sc = byid_sc[rj["id"]]
        line = rj["info"].get("line", {})
        what = "real secret store breaks C05(a) at step %s: observed %s" % (rj["at"], json.dumps(line, sort_keys=True))
        ctx.violation(what, {"part": "a", "script": sc, "observed": rj["events"][:6], "rejected_line": line, "step": rj["at"]})
    for s in scripts:
        ev = byid[s["id"]]
        if len(ctx.samples) < 2 and len(ev) <= 4 and any(e.get("ev") == "register" and e["holds"] and e["csend"] and not e["sameg"] for e in ev):
            ctx.add_samples([{"part": "a", "script": [dict(act=x["act"], a=x["a"]) for x in s["steps"]], "observed": ev}], limit=2)
    info["rules"].append("(a) every (sender, group, recipient) triple over 3 accounts / 4 stores / multi-member, account and two contact groups x every opener x every group x every claimed sender; every single-bit flip, truncation and extension of the ciphertext against the otherwise legitimate attempt; non-trivial = at least two of {recipient key, claimed sender, group} are right")
    info["techniques"].append("Announce.tla model-checked by TLC (both nonce choices); TLC-enumerated attempts replayed through GetShareableChainKey/RegisterChainKey/IsChainKeyKnownForDevice; traces checked by TLC against MonAnnounce.tla (verdict) and TraceAnnounce.tla (conformance)")


# ------------------------------------------------------------------ (b)
def _b_focus(h):
    """scripts about announcement positions: a registration followed by at least one open"""
    acts = [s["act"] for s in h]
    return "register" in acts and "open" in acts[acts.index("register"):]


def part_b(ctx, info, replay_obj=None):
    ov = ctx.overlay({PKG: FILES})
    quick = ctx.tier == "quick"
    groups = {}
    if replay_obj is not None:
        sc = replay_obj["script"]
        groups[(sc["cfg"]["W"], sc["cfg"]["N"])] = [sc]
    else:
        ctx.tlc_expect_ok("Ratchet", "MC_Ratchet.cfg", name="b_mc", workers=2, consts={"MaxSent": "3", "W": "2", "N": "1"})
        nid = 100000
        plans = [(2, 1, 3, 3)] if quick else [(1, 1, 4, 4), (2, 1, 4, 4), (3, 1, 4, 4)]
        for (W, N, ms, ml) in plans:
            r = ctx.tlc("GenRatchet", "Gen_Ratchet.cfg", name="b_gen_W%d" % W, workers=2 if quick else 4, timeout=1200, heap="8g",
                        consts={"W": str(W), "N": str(N), "MaxSent": str(ms), "MaxLen": str(ml), "WithPush": "FALSE"})
            sc = vf.scripts_from_tlc(r.printed.get("SCRIPT", []), cfg={"W": W, "N": N, "part": "b"}, start_id=nid,
                                     limit=1500 if quick else 20000, rng=ctx.rng, keep=_b_focus)
            nid += len(sc)
            groups[(W, N)] = sc
    alls = {s["id"]: s for v in groups.values() for s in v}
    if not alls:
        raise vf.Infra("no ratchet scripts for C05(b)")
    events, _ = vf.run_driver(ctx, PKG, ratchet.DRV, ov, list(alls.values()), "exactness", timeout=1500)
    byid = dict(vf.split_traces(events))
    if set(byid) != set(alls):
        raise vf.Infra("ratchet driver did not record every script")
    n_ann_pos = set()
    for (W, N), scripts in sorted(groups.items()):
        evs = []
        for s in scripts:
            evs.append({"ev": "reset", "id": s["id"]})
            evs.extend(byid[s["id"]])
            for e in byid[s["id"]]:
                if e.get("ev") == "register":
                    n_ann_pos.add((W, e["a"]))
        consts = {"W": str(W), "N": str(N)}
        acc, rejects = vf.validate_blocks(ctx, ratchet.MON, evs, "exact_W%d" % W, consts=consts, conf=ratchet.CONF, timeout=1500)
        ctx.evaluations += len(scripts)
        ctx.distinct_nontrivial += sum(1 for s in scripts if ratchet._nontrivial(s))
        for rj in rejects:
            line = rj["info"].get("line", {})
            what = "real secret store breaks C05(b) (announcement at counter a must register exactly the later messages) at step %s: observed %s" % (rj["at"], json.dumps(line, sort_keys=True))
            ctx.violation(what, {"part": "b", "script": alls[rj["id"]], "observed": rj["events"], "rejected_line": line, "step": rj["at"]})
    info["parts"]["b"] = {"scripts": len(alls), "windows": sorted("W%d_N%d" % k for k in groups),
                          "announcement_positions_registered": sorted(n_ann_pos)}
    info["rules"].append("(b) Ratchet histories (sender prefix with announcements at arbitrary counters, then receiver steps) that register an announcement and open afterwards; MonRatchet requires that exactly the messages after the registered counter open")
    info["techniques"].append("Ratchet.tla / GenRatchet.tla / MonRatchet.tla of C02 reused for announcement positions")


import keydist

def part_d(ctx, info, rp=None):
    """(d) exactness / completeness at ANY counter through the store path (group.go filter, group_context.go listing)"""
    import anncounter
    anncounter.run_part(ctx)
    info["parts"]["d"] = ctx.extra.get("announcement_counters")
    info["rules"].append("(d) announcements sealed after 0 .. 300 (thorough: 20000) published messages pass the recipient's filter, are registered and open exactly the subsequent messages")
    info["techniques"].append("(d) store-path driver judged by MonAnnCounter.tla")


PARTS = [("a", part_a), ("b", part_b), ("c", keydist.run_part_c), ("d", part_d)]


def run(ctx, replay=None):
    info = {"parts": {}, "rules": [], "techniques": [], "design_level": {}}
    if replay:
        rp = json.load(open(replay))
        todo = [(n, f) for n, f in PARTS if n == ("d" if rp.get("family") == "anncounter" else rp.get("part", "a"))]
        for n, f in todo:
            f(ctx, info, rp)
    else:
        for n, f in PARTS:
            f(ctx, info)
    ctx.extra["parts"] = info["parts"]
    ctx.extra["design_level"] = info["design_level"]
    ctx.extra["not_covered_yet"] = [] if any(n == "c" for n, _ in PARTS) else ["(c) completeness in a group of active members (KeyDistribution, needs orbit-db peers)"]
    ctx.assumptions += keydist.ASSUMPTIONS
    ctx.assumptions += ["symbolic keys (perfect box); key-sharing structure of account/contact groups as implemented (checked by the driver on the real key bytes)",
                        "fresh stores for every attempt (RegisterChainKey ignores an already registered device after decrypting)",
                        "TLC 1.8.0, Go toolchain, in-memory datastore"]
    return ctx.finish(level="model_checking", rule=" | ".join(info["rules"]), exhaustive=False, technique=" | ".join(info["techniques"]))
