import rendezvous


def run(ctx, replay=None):
    return rendezvous.run(ctx, replay)
