"""The contact-request manager (contact_request_manager.go + the parts of tinder_swiper.go, store_metadata.go and
internal/handshake it drives): specs/ContactManager.tla bound to the real code.  NOT one of the listed properties:

    run_part(ctx)   adds its TLC runs, replay counts, drift and ctx.extra["contact_manager"] to the given ctx and
                    returns; it never raises a VIOLATION for what it finds - with ONE exception, the monitor clauses
                    K1-K3, which are literally implied by C07 (a blocked contact's incoming request appends nothing,
                    a refused operation appends nothing, the account never becomes its own contact); a K reject is
                    routed to ctx.violation only after it reproduced on a solo re-run of the same script.

1. design level: ContactManager.tla model-checked exhaustively (every interleaving of store operations, event
   deliveries, start-up steps, close(), lookup results and the delayed exit of cancelled lookups) for the choices the
   code makes - the invariants that hold must hold, each invariant the code breaks must be shown broken (the
   counterexample is kept), the repaired choices must satisfy all of them; liveness under fairness in a small config;
2. GenContactManager samples environment scripts; the Go driver (harness/root/vf_crm_verif_test.go) replays them on
   the REAL contactRequestsManager over a real account MetadataStore / Swiper / tinder service (mock discovery
   server) / handshake over mocknet streams, and records the observable projection after every step;
3. TraceContactManager (full spec, strict) must accept every recorded trace: a rejection is DRIFT;
   MonContactManager evaluates the design invariants on the observed values: its findings on conformant traces are the
   OBSERVATIONS the named deviations of the model explain (reported with counts and a first script)."""
import json, os, re, threading, time
import vf

PKG = "."
FILES = ["vf_crm_verif_test.go"]
DRV = "^TestVerifContactManager$"
MON = ("MonContactManager", "Mon_ContactManager.cfg")
CONF = ("TraceContactManager", "Trace_ContactManager.cfg")
# development switch (never set by registered commands): validate against other choices of the model, e.g.
# CRM_IMPL="ExitCancelsAny=FALSE,OfferIgnoresCancel=FALSE" after applying a proposed fix in a worktree
DEV_IMPL = dict(kv.split("=") for kv in os.environ.get("CRM_IMPL", "").split(",") if "=" in kv)
ROUTE_C07 = True          # K1-K3 rejects confirmed on a solo re-run become violations of the calling property (C07)
IMPL = ["ExitCancelsAny", "OfferIgnoresCancel", "StartIgnoresClose", "LoopHandlesAfterClose", "BlockKeepsLookup"]
# invariant the code's choices break -> (deviation it is explained by, the choices whose repair restores it)
BROKEN = {
    "NoLookupLost": ("F1 a leaving lookup goroutine cancels the NEWER lookup of its contact (double enqueue, enqueue racing the start-up listing): the request is never sent until restart", ["ExitCancelsAny"]),
    "NoStrayLookup": ("D2 the manager ignores block events: the lookup of a blocked contact keeps running", ["BlockKeepsLookup"]),
    "NoWatchLeak": ("F2 watchPeers offers a peer with a plain channel send: when the sender left after a success the watch loop, its pull loop and its tinder subscription stay for ever", ["OfferIgnoresCancel"]),
    "HandlerGoneAfterClose": ("F3 the watcher's start-up / loop do not look at the context: after a close() that wins the race the stream handler is registered (again) and enabled = true", ["StartIgnoresClose", "LoopHandlesAfterClose"]),
    "HandlerIffEnabled": ("F3' the handler left behind by a closed instance answers although the next instance has requests disabled", ["StartIgnoresClose", "LoopHandlesAfterClose"]),
}
BROKEN_PROPS = {"ToldOnlyToRequest": "D2' a blocked (or unblocked = removed) contact is still handed the account's contact (key, rendezvous seed, metadata) by the surviving lookup"}
HOLD = ["TypeOK", "IndexIsLog", "OldPointGone", "AnnounceIffEnabled", "NoLookupAfterClose", "OneSentPerEnqueue", "NeverSelf"]
CLAUSE_TEXT = {
    "A1": "announce live iff enabled and seed set (running, nothing held)", "A2": "live announce only on the current seed",
    "A3": "stream handler iff enabled (running, nothing held)", "L1": "every to-request contact has a lookup and a watch (settled)",
    "L2": "lookups / watches only for to-request contacts (settled)", "C1": "nothing survives close() (settled)",
    "S1": "two sent events of a contact never adjacent", "T1": "contact handed the account's contact only while to-request",
    "K1": "C07: blocked contact's incoming request appends nothing", "K2": "C07: refused operation appends nothing",
    "K3": "C07: the account never becomes its own contact",
}
# observation clause -> named deviation of the model that explains it on conformant traces
EXPLAINED = {"L1": "F1", "L2": "D2", "T1": "D2'", "C1": "F2/F3", "A3": "F3'"}


def S(act, d="-", s="-", x=0):
    return {"act": act, "d": d, "s": s, "x": x}


# hand-written scenarios (the counterexamples of the design level and the basic flows), always replayed
NAMED = [
    ("basic: enable, reset, enqueue, peer found, sent", [S("new"), S("op", "-", "en"), S("deliver"), S("op", "-", "rs"), S("deliver"), S("op", "c1", "enq"), S("deliver"), S("peer", "c1", "good"), S("deliver"), S("settle")]),
    ("F1 double enqueue loses the lookup", [S("new"), S("op", "c1", "enq"), S("deliver"), S("op", "c1", "enq"), S("deliver"), S("settle"), S("peer", "c1", "good"), S("settle")]),
    ("F1 enqueue between the watcher's subscription and its listing", [S("new", x=1), S("op", "c1", "enq"), S("resume"), S("deliver"), S("settle"), S("peer", "c1", "good"), S("settle")]),
    ("D2 blocked contact is still requested", [S("new"), S("op", "c1", "enq"), S("deliver"), S("op", "c1", "blk"), S("deliver"), S("peer", "c1", "good"), S("settle")]),
    ("D2 block, unblock, peer found: removed contact becomes added", [S("new"), S("op", "c1", "enq"), S("deliver"), S("op", "c1", "blk"), S("deliver"), S("op", "c1", "unb"), S("deliver"), S("peer", "c1", "good"), S("deliver"), S("settle")]),
    ("bad peer then good peer", [S("new"), S("op", "c1", "enq"), S("deliver"), S("peer", "c1", "bad"), S("settle"), S("peer", "c1", "good"), S("settle")]),
    ("F2 two peers on the point: watch loop leaks", [S("peer", "c1", "good"), S("peer", "c1", "bad"), S("new"), S("op", "c1", "enq"), S("deliver"), S("settle"), S("deliver"), S("close"), S("settle")]),
    ("F3 close during start-up, then an incoming request", [S("op", "-", "en"), S("op", "-", "rs"), S("op", "c1", "enq"), S("new", x=1), S("close"), S("resume"), S("settle"), S("inc", "c2", "good"), S("settle")]),
    ("incoming requests: no handler, accepted, impostor, blocked, disabled", [S("new"), S("inc", "c1", "good"), S("op", "-", "en"), S("deliver"), S("inc", "c1", "good"), S("inc", "c1", "bad"), S("inc", "c2", "bad"), S("op", "c2", "blk"), S("inc", "c2", "good"), S("deliver"), S("deliver"), S("op", "-", "dis"), S("deliver"), S("inc", "c2", "good"), S("close"), S("settle")]),
    ("restart on a history, reset, self request", [S("op", "-", "en"), S("op", "-", "rs"), S("op", "c1", "enq"), S("op", "c2", "enq"), S("new"), S("op", "-", "rs"), S("deliver"), S("close"), S("new"), S("settle"), S("op", "self", "enq"), S("peer", "c1", "good"), S("settle")]),
    ("crossing requests: incoming on to-request marks sent", [S("new"), S("op", "-", "en"), S("deliver"), S("op", "c1", "enq"), S("deliver"), S("inc", "c1", "good"), S("deliver"), S("settle")]),
    ("disable keeps lookups, close ends them", [S("new"), S("op", "-", "en"), S("deliver"), S("op", "-", "rs"), S("deliver"), S("op", "c1", "enq"), S("deliver"), S("op", "-", "dis"), S("deliver"), S("settle"), S("close"), S("settle")]),
    ("an incoming request of an unblocked (removed) contact ends the lookup that survived the block", [S("new"), S("op", "-", "en"), S("deliver"), S("op", "c1", "enq"), S("deliver"), S("op", "c1", "blk"), S("deliver"), S("op", "c1", "unb"), S("deliver"), S("inc", "c1", "good"), S("deliver"), S("settle")]),
    ("close racing with a held event", [S("new"), S("op", "-", "en"), S("close", x=1), S("settle"), S("new"), S("settle")]),
]


def _set(xs):
    return "{" + ", ".join('"%s"' % x for x in xs) + "}"


def _parallel(jobs, width):
    res, err = [None] * len(jobs), []
    sem = threading.Semaphore(width)

    def work(i, f):
        with sem:
            try:
                res[i] = f()
            except BaseException as e:      # noqa
                err.append(e)
    ts = [threading.Thread(target=work, args=(i, f)) for i, f in enumerate(jobs)]
    for t in ts:
        t.start()
    for t in ts:
        t.join()
    if err:
        raise err[0]
    return res


def _trace_summary(out, keys=("log", "q", "mpc", "closed", "cfin", "en", "seed", "ann", "hdl", "lkmap", "z", "leak", "adv", "told")):
    """a TLC counterexample as the list of variable changes per state (compact, for the evidence file)"""
    states = re.split(r"\nState \d+: <[^\n]*\n", out)[1:]
    prev, lines = {}, []
    for i, s in enumerate(states):
        s = s.split("\n\n")[0]
        vals = {m.group(1): re.sub(r"\s+", " ", m.group(2)) for m in re.finditer(r"/\\ (\w+) = (.*?)(?=\n/\\ |\Z)", s, re.S)}
        ch = [k for k in keys if vals.get(k) != prev.get(k)]
        if i > 0:
            lines.append("; ".join("%s=%s" % (k, vals.get(k)) for k in ch)[:300])
        prev = vals
    return lines


# ------------------------------------------------------------------------------------------------ design level
SOFT_BUDGET_S = 210      # secondary design-level runs that would start later than this are skipped (and listed)


def design_level(ctx, cm):
    quick = ctx.tier == "quick"
    out = {}
    jobs = []
    t_start = time.time()

    def mc(name, cfg, consts=None, workers=2, timeout=900, inv=None, props=None, secondary=False):
        def f():
            if secondary and time.time() - t_start > SOFT_BUDGET_S:
                return None
            text = open(os.path.join(vf.SPECS, cfg)).read()
            tmp = None
            if inv is not None or props is not None:
                text = re.sub(r"^INVARIANTS.*$", "INVARIANTS " + " ".join(inv or ["TypeOK"]), text, flags=re.M)
                text = re.sub(r"^PROPERTIES.*\n", "", text, flags=re.M)
                if props:
                    text += "\nPROPERTIES " + " ".join(props) + "\n"
                tmp = "vfrun_%s_%s" % (name, cfg)
                with open(os.path.join(ctx.sub("cfg"), tmp), "w") as fh:
                    fh.write(text)
            return ctx.tlc("ContactManager", cfg if tmp is None else os.path.relpath(os.path.join(ctx.sub("cfg"), tmp), vf.SPECS),
                           name="crm_" + name, workers=workers, consts=consts, allow_violation=True, timeout=timeout, count=False, heap="6g")
        jobs.append((name, f))

    ops = "3" if quick else "4"
    full = {"OpKinds": _set(["en", "dis", "rs", "enq", "blk", "unb", "sent"]), "MaxOps": "3"}
    # (a) the code's choices: what holds must hold
    mc("code_1contact", "MC_ContactManager.cfg", {"MaxOps": ops}, workers=2 if quick else 4)
    if not quick:
        mc("code_2contacts", "MC_ContactManager_2.cfg", workers=3)
    # (b) what the code breaks must be shown broken (vacuity guard of the model: the deviations are in it)
    for inv in (["NoLookupLost"] if quick else sorted(BROKEN)):
        mc("broken_" + inv, "MC_ContactManager.cfg", full, workers=1, inv=[inv])
    if not quick:
        mc("broken_ToldOnlyToRequest", "MC_ContactManager.cfg", full, workers=1, inv=["TypeOK"], props=["ToldOnlyToRequest"])
        # (c) the repaired choices satisfy every design invariant
        mc("repaired", "MC_ContactManager.cfg", dict({k: "FALSE" for k in IMPL}, **full), workers=2,
           inv=HOLD + sorted(BROKEN) + ["HandlerIffEnabled"])
        # (d) liveness under fairness: fails for the code (F1), holds with the exit repaired
        mc("live_code", "MCL_ContactManager.cfg", workers=2)
        mc("live_repaired", "MCL_ContactManager.cfg", {"ExitCancelsAny": "FALSE"}, workers=2, secondary=True)
        # (e) more contacts / the switches alone (secondary: skipped when the machine is too loaded)
        mc("code_switches", "MC_ContactManager_sw.cfg", workers=2, secondary=True)
        mc("code_3contacts", "MC_ContactManager_3.cfg", workers=2, secondary=True)
    res = _parallel([f for _, f in jobs], 3 if quick else 4)
    for (name, _), r in zip(jobs, res):
        if r is None:
            out[name] = {"skipped": "soft time budget of the design level (%ds) was used up on a loaded machine" % SOFT_BUDGET_S}
            continue
        if r.violated is None and re.search(r"Temporal propert\w+ .*violated", r.out):
            r.violated, r.error = "temporal", None      # lib/vf.py only knows the older wording
        ctx.states += r.distinct
        ctx.transitions += r.generated
        rec = {"distinct": r.distinct, "generated": r.generated, "depth": r.depth, "wall_s": round(r.wall, 1), "violated": r.violated}
        if name.startswith("code_") or name in ("repaired", "live_repaired"):
            if not r.ok:
                raise vf.Infra("ContactManager.tla (%s) must satisfy its invariants: %s\n%s" % (name, r.violated, "\n".join(r.out.splitlines()[-30:])))
        elif name.startswith("broken_"):
            inv = name[len("broken_"):]
            want = inv if inv in BROKEN else "ToldOnlyToRequest"
            if r.violated != want:
                raise vf.Infra("vacuity guard: the model of the code does not break %s (%s)" % (inv, r.violated))
            rec["explained_by"] = (BROKEN.get(inv) or (BROKEN_PROPS[inv],))[0]
            rec["counterexample"] = _trace_summary(r.out)
        elif name == "live_code":
            if r.violated != "temporal":
                raise vf.Infra("liveness: the model of the code is expected to break EventuallySent (%s)" % r.violated)
            rec["explained_by"] = BROKEN["NoLookupLost"][0]
            rec["counterexample"] = _trace_summary(r.out)
        out[name] = rec
    cm["design_level"] = out
    main = out["code_1contact"]
    cm["states"], cm["distinct_states"], cm["diameter"] = main["generated"], main["distinct"], main["depth"]


# ------------------------------------------------------------------------------------------------ scripts
ALLOPS = ["en", "dis", "rs", "enq", "blk", "unb", "sent", "acc", "disc", "enqself"]


def gen(ctx):
    quick = ctx.tier == "quick"
    # (name, contacts, opkinds, auto, preops, refused, maxlen, walks, keep)
    plans = [
        ("auto2", 2, ["en", "dis", "rs", "enq", "blk", "unb", "sent"], True, 0, False, 12, 30, 32),
        ("hist2", 2, ALLOPS, True, 3, True, 14, 30, 32),
        ("manual2", 2, ["en", "dis", "rs", "enq", "sent", "blk"], False, 1, False, 12, 30, 32),
        ("one", 1, ["enq", "blk", "unb", "sent", "en"], True, 0, False, 12, 30, 36),
        ("switch", 2, ["en", "dis", "rs", "enq"], True, 2, False, 12, 25, 26),
        ("three", 3, ["enq", "en", "rs", "sent"], True, 1, False, 12, 20, 18),
    ]
    if quick:
        plans = [(n, c, o, a, p, r, ml, 8, 6) for (n, c, o, a, p, r, ml, w, k) in plans[:5]]
    jobs = []
    for (name, nc, ops, auto, pre, refused, ml, walks, keep) in plans:
        consts = {"Contacts": _set("c%d" % (i + 1) for i in range(nc)), "OpKinds": _set(ops), "Auto": "TRUE" if auto else "FALSE",
                  "PreOps": str(pre), "WithRefused": "TRUE" if refused else "FALSE", "MaxLen": str(ml)}
        consts.update(DEV_IMPL)
        jobs.append(lambda name=name, consts=consts, walks=walks, ml=ml: ctx.tlc(
            "GenContactManager", "Gen_ContactManager.cfg", name="crm_gen_" + name, workers=1, simulate="num=%d" % walks,
            depth=20 * ml, consts=consts, timeout=600, count=False, heap="4g"))
    res = _parallel(jobs, 3)
    scripts = [{"id": i, "cfg": {"contacts": 3 if "c3" in json.dumps(st) else 2, "plan": "named", "name": n}, "steps": st} for i, (n, st) in enumerate(NAMED)]
    for (name, nc, ops, auto, pre, refused, ml, walks, keep), r in zip(plans, res):
        hs = r.printed.get("SCRIPT", [])
        # one script per walk prefix: the variants TLC prints for the last step are mostly the same walk
        seen, uniq = set(), []
        for h in hs:
            k = json.dumps(h[:-1], sort_keys=True)
            if k in seen:
                continue
            seen.add(k)
            uniq.append(h)
        sc = vf.scripts_from_tlc(uniq, cfg={"contacts": max(nc, 2), "plan": name}, start_id=len(scripts), limit=keep, rng=ctx.rng)
        for s in sc:
            if s["steps"][-1]["act"] != "settle":
                s["steps"] = s["steps"] + [S("settle")]
        scripts += sc
    for i, s in enumerate(scripts):
        s["id"] = i
    return scripts


# ------------------------------------------------------------------------------------------------ validation
def _tlc_trace(ctx, mod, events, name, collect=False, strict=True, timeout=900):
    d = ctx.sub("val_" + name)
    tp = os.path.join(d, "trace.ndjson")
    vf.write_ndjson(tp, events)
    env = {"VERIF_TRACE": tp, "VERIF_STRICT": "1" if strict else "0"}
    if collect:
        env["VERIF_COLLECT"] = "1"
    r = ctx.tlc(mod[0], mod[1], name=name, workers=1, env=env, timeout=timeout, allow_violation=True, count=False, heap="6g",
                consts=DEV_IMPL if (DEV_IMPL and mod is CONF) else None)
    rej = r.printed.get("REJECTED")
    if r.violated is None and r.error is None and r.rc == 0 and not rej:
        return True, None, r
    if rej:
        return False, rej[0], r
    if r.violated and r.violated != "Postcondition":
        return False, {"invariant": r.violated}, r
    raise vf.Infra("trace validation broke (%s): %s\n%s" % (mod[0], r.error or r.violated, "\n".join(r.out.splitlines()[-30:])))


def _flat(blocks):
    flat, index = [], []
    for bid, evs in blocks:
        index.append((len(flat), bid))
        flat.append({"ev": "reset", "id": bid})
        flat.extend(evs)
    return flat, index


def conformance(ctx, blocks, name, max_rejects=6):
    """full spec, strict: returns (accepted ids, [drift records])"""
    cur, drift, rounds = list(blocks), [], 0
    while cur:
        rounds += 1
        flat, index = _flat(cur)
        ok, info, _ = _tlc_trace(ctx, CONF, flat, "%s_conf%d" % (name, rounds))
        if ok:
            break
        if "high" not in info:
            raise vf.Infra("an invariant of the specification failed on an observed trace: %s" % info)
        pos = info["high"]
        bi = max(i for i, (start, _) in enumerate(index) if start <= pos)
        bid, evs = cur[bi]
        drift.append({"id": bid, "at": pos - index[bi][0] - 1, "line": info.get("line")})
        cur = cur[:bi] + cur[bi + 1:]
        if len(drift) >= max_rejects:
            # the rest is not claimed as validated
            cur = cur[:bi]
            break
    return [b for b, _ in cur], drift


def monitor(ctx, blocks, name):
    """design invariants on the observed values, collect mode: [(script id, line in block, clauses, line)]"""
    flat, index = _flat(blocks)
    ok, info, r = _tlc_trace(ctx, MON, flat, name + "_mon", collect=True, strict=False)
    if not ok:
        raise vf.Infra("monitor did not consume the trace: %s" % info)
    out = []
    for b in r.printed.get("BAD", []):
        pos = b["at"] - 1
        bi = max(i for i, (start, _) in enumerate(index) if start <= pos)
        out.append((index[bi][1], pos - index[bi][0] - 1, sorted(b["clauses"]), b["line"]))
    return out


def _replay_text(script):
    return " ".join("%s(%s)" % (s["act"], ",".join(str(v) for v in (s["d"], s["s"]) if v != "-") + (",x" if s.get("x") else "")) for s in script["steps"])


# ------------------------------------------------------------------------------------------------ entry
def run_part(ctx, replay_scripts=None):
    t0 = time.time()
    quick = ctx.tier == "quick"
    cm = {"module": "contact-request manager (not a listed property: findings are observations / drift)"}
    ctx.extra["contact_manager"] = cm
    ov = ctx.overlay({PKG: FILES})
    binres = {}

    def build():
        binres["bin"] = ctx.go_test_compile(PKG, ov, name="crm")
    bt = threading.Thread(target=lambda: _guard(build, binres))
    bt.start()
    if replay_scripts is None:
        design_level(ctx, cm)
        scripts = gen(ctx)
    else:
        scripts = replay_scripts
    bt.join()
    if binres.get("err"):
        raise binres["err"]
    cm["wall_design_gen_build_s"] = round(time.time() - t0, 1)

    t1 = time.time()
    events = ctx.run_sharded(binres["bin"], DRV, PKG, scripts, "crm", shards=4 if quick else 8, timeout=1200, chunk=60)
    byid = {}
    for bid, evs in vf.split_traces(events):
        byid[bid] = evs
    # re-read the reset records for the skip marks
    skipped = {e["id"]: e["skip"] for e in events if e.get("ev") == "reset" and "skip" in e}
    if set(byid) != set(s["id"] for s in scripts):
        raise vf.Infra("driver did not record every script")
    sid = {s["id"]: s for s in scripts}
    # a script skipped for timing is run once more alone; still skipped = counted as infrastructure
    if skipped:
        again = [sid[i] for i in sorted(skipped)]
        ev2 = ctx.run_sharded(binres["bin"], DRV, PKG, again, "crm_retry", shards=min(4, len(again)), timeout=1200, chunk=60)
        sk2 = {e["id"] for e in ev2 if e.get("ev") == "reset" and "skip" in e}
        for bid, evs in vf.split_traces(ev2):
            if bid not in sk2:
                byid[bid] = evs
                skipped.pop(bid)
    cm["wall_replay_s"] = round(time.time() - t1, 1)
    blocks = [(s["id"], byid[s["id"]]) for s in scripts if s["id"] not in skipped]
    cm["scripts_replayed"] = len(blocks)
    cm["scripts_skipped_infrastructure"] = len(skipped)
    if skipped:
        cm["skipped_reasons"] = sorted(set(v[:80] for v in skipped.values()))[:4]
    if len(skipped) > max(3, len(scripts) // 5):
        raise vf.Infra("too many scripts did not settle (%d of %d): %s" % (len(skipped), len(scripts), list(skipped.values())[:2]))
    cm["steps_replayed"] = sum(len(e) - 1 for _, e in blocks)
    ctx.evaluations += len(blocks)

    t2 = time.time()
    accepted, drift = conformance(ctx, blocks, "crm")
    acc = set(accepted)
    cm["traces_accepted_full_spec"] = len(accepted)
    cm["traces_rejected_full_spec"] = len(drift)
    ctx.traces_validated += len(accepted)
    ctx.extra["conformant_traces"] = ctx.extra.get("conformant_traces", 0) + len(accepted)
    if drift:
        first = drift[0]
        cm["first_rejected"] = {"script": _replay_text(sid[first["id"]]), "step": first["at"], "line": first["line"]}
    for d in drift:
        ctx.drift.append({"trace": "contact_manager", "script": _replay_text(sid[d["id"]]), "info": {"step": d["at"], "line": d["line"]}})
        vf.log("model drift (contact manager) script %s step %s: %s" % (d["id"], d["at"], json.dumps(d["line"], sort_keys=True)[:300]))

    # observations: the design invariants on the observed values
    bad = monitor(ctx, blocks, "crm")
    obs, kbad = {}, []
    for (bid, at, clauses, line) in bad:
        for c in clauses:
            if c.startswith("K"):
                kbad.append((bid, at, c, line))
                continue
            o = obs.setdefault(c, {"clause": CLAUSE_TEXT[c], "lines": 0, "scripts": set(), "in_conformant_traces": 0, "explained_by": EXPLAINED.get(c)})
            o["lines"] += 1
            o["scripts"].add(bid)
            if bid in acc:
                o["in_conformant_traces"] += 1
    for c, o in obs.items():
        first = min(o["scripts"])
        o["first_script"] = _replay_text(sid[first])
        o["scripts"] = len(o["scripts"])
        if o["explained_by"] is None:
            # an invariant the model of the code satisfies fails on the real code: drift, with the script
            ctx.drift.append({"trace": "contact_manager", "clause": c, "what": CLAUSE_TEXT[c], "script": o["first_script"]})
    d3 = [(bid, i) for bid, evs in blocks for i, e in enumerate(evs) if e.get("st", {}).get("srv")]
    if d3:
        obs["D3"] = {"clause": "informational: the discovery server still serves an own point on which no announce is live (the swiper stops advertising but never unregisters; the registration lasts until its TTL)",
                     "lines": len(d3), "scripts": len(set(b for b, _ in d3)), "explained_by": "D3", "first_script": _replay_text(sid[d3[0][0]])}
    cm["observations"] = obs
    ctx.distinct_nontrivial += len(set(b for (b, _, _, _) in bad))

    # C07 clauses: only after a solo reproduction
    cm["c07_clause_rejects"] = []
    if kbad:
        ids = sorted(set(b for (b, _, _, _) in kbad))
        ev3 = ctx.run_sharded(binres["bin"], DRV, PKG, [sid[i] for i in ids], "crm_k", shards=min(4, len(ids)), timeout=1200, chunk=60)
        b3 = [(bid, evs) for bid, evs in vf.split_traces(ev3) if not any(e.get("ev") == "reset" and "skip" in e and e["id"] == bid for e in ev3)]
        again = {(b, c) for (b, _, cl, _) in monitor(ctx, b3, "crm_k") for c in cl if c.startswith("K")} if b3 else set()
        first_k = {}
        for k in kbad:
            first_k.setdefault((k[0], k[2]), k)      # one report per script and clause: the first line
        for (bid, at, c, line) in sorted(first_k.values(), key=lambda k: (k[0], k[1])):
            rec = {"clause": c, "what": CLAUSE_TEXT[c], "script": _replay_text(sid[bid]), "step": at, "line": line, "reproduced": (bid, c) in again}
            cm["c07_clause_rejects"].append(rec)
            if rec["reproduced"] and ROUTE_C07:
                ctx.violation("real contact-request path breaks a C07 clause (%s) at step %d: observed %s" % (CLAUSE_TEXT[c], at, json.dumps(line, sort_keys=True)[:400]),
                              {"part": "contact_manager", "script": sid[bid], "observed": byid[bid], "clause": c, "step": at})
            elif not rec["reproduced"]:
                ctx.drift.append({"trace": "contact_manager", "clause": c, "what": "not reproduced on a solo run", "script": rec["script"]})

    # binding self-test: a corrupted and a truncated trace must be rejected by the full spec
    if not quick and accepted:
        cm["binding_selftest"] = selftest(ctx, [(b, e) for b, e in blocks if b in acc])
    cm["wall_validation_s"] = round(time.time() - t2, 1)
    cm["wall_s"] = round(time.time() - t0, 1)
    if len(ctx.samples) < 8:
        ctx.samples.append("contact manager: %d scripts replayed, %d accepted by the full spec, observations %s" % (
            len(blocks), len(accepted), {c: o["scripts"] for c, o in sorted(obs.items())}))


def _guard(f, box):
    try:
        f()
    except BaseException as e:      # noqa
        box["err"] = e


def selftest(ctx, good):
    """corrupt one field of one line, drop one line: the full spec must reject both"""
    out = {}
    cand = [(b, e) for b, e in good if any(x["ev"] == "deliver" and x["res"].get("r") in ("en", "enq", "rs") for x in e)]
    if not cand:
        return {"skipped": "no accepted trace with a delivery"}
    bid, evs = cand[0]
    k = next(i for i, x in enumerate(evs) if x["ev"] == "deliver" and x["res"].get("r") in ("en", "enq", "rs"))
    cor = json.loads(json.dumps(evs))
    if cor[k]["res"]["r"] == "enq":
        cor[k]["st"]["lk"] = []
    elif cor[k]["res"]["r"] == "en":
        cor[k]["st"]["en"] = not cor[k]["st"]["en"]
    else:
        cor[k]["st"]["seed"] = cor[k]["st"]["seed"] + 1
    ok, _, _ = _tlc_trace(ctx, CONF, _flat([(bid, cor)])[0], "crm_self_corrupt")
    out["corrupted_field_rejected"] = not ok
    drop = evs[:k] + evs[k + 1:]
    ok2, _, _ = _tlc_trace(ctx, CONF, _flat([(bid, drop)])[0], "crm_self_drop")
    out["dropped_line_rejected"] = not ok2
    if ok or ok2:
        raise vf.Infra("binding self-test: the full spec accepted a corrupted (%s) / truncated (%s) trace" % (ok, ok2))
    return out
