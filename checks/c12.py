import invite


def run(ctx, replay=None):
    return invite.run_c12(ctx, replay)
