"""C01: specs/Envelope.tla bound to pkg/secretstore (SealEnvelope / OpenEnvelopeHeaders / OpenEnvelopePayload)."""
import json, os
import vf

PKG = "pkg/secretstore"
FILES = ["vf_world_verif_test.go", "vf_envelope_verif_test.go"]
MON = ("MonEnvelope", "Mon_Envelope.cfg")
CONF = ("TraceEnvelope", "Trace_Envelope.cfg")
DRV = "^TestVerifEnvelopeReplay$"
W = 2
# the value of the Impl constant that describes the current tree (sealPayload signs the payload only)
SIGCTX_CURRENT = "FALSE"
KNOWN_KEY = "C01-signature-binds-neither-counter-nor-group"
GTYPES = {True: ["account"], False: ["multi", "contact"]}


def _tla_bool(b):
    return "TRUE" if b else "FALSE"


def _model_check(ctx):
    quick = ctx.tier == "quick"
    base = {"W": str(W)}
    # the design with a signature that binds group and counter satisfies C01 for the whole forgery product
    if quick:
        runs = [("mc_bound_shared", {"Shared": "TRUE", "SigCtx": "TRUE", "Plan": '"mini"', "MaxOpen": "1"}),
                ("mc_bound_pergroup", {"Shared": "FALSE", "SigCtx": "TRUE", "Plan": '"mini"', "MaxOpen": "1"})]
    else:
        runs = [("mc_bound_shared", {"Shared": "TRUE", "SigCtx": "TRUE", "Plan": '"std"', "MaxOpen": "2"}),
                ("mc_bound_pergroup", {"Shared": "FALSE", "SigCtx": "TRUE", "Plan": '"std"', "MaxOpen": "1"}),
                ("mc_bound_pergroup_mini", {"Shared": "FALSE", "SigCtx": "TRUE", "Plan": '"mini"', "MaxOpen": "3"})]
    for name, c in runs:
        ctx.tlc_expect_ok("Envelope", "MC_Envelope.cfg", name=name, workers=4, consts=dict(base, **c), timeout=1500, heap="6g")
    # the scheme of the current tree (signature over the payload only): TLC shows at design level what the replay finds
    r = ctx.tlc("Envelope", "MC_Envelope.cfg", name="mc_payload_only_sig", workers=4, allow_violation=True, timeout=1500, heap="6g",
                consts=dict(base, Shared="TRUE", SigCtx="FALSE", Plan='"mini"', MaxOpen="1"))
    ctx.extra["design_level"] = {"impl_sigctx_current": SIGCTX_CURRENT,
                                 "payload_only_signature_violates": r.violated,
                                 "note": "model-level result only; the verdict comes from the replay on the real code"}


def _mode(steps):
    acts = {s["act"] for s in steps}
    return "forge" if "forge" in acts else "tamper" if "tamper" in acts else "honest"


def _gen(ctx):
    """returns {shared(bool): [scripts]} (ids unique over everything)"""
    quick = ctx.tier == "quick"
    out = {True: [], False: []}
    nid = [0]
    counts = {}

    def add(shared, printed, tag, limit=None):
        sc = vf.scripts_from_tlc(printed, cfg={"W": W, "shared": shared}, start_id=nid[0], limit=limit, rng=ctx.rng)
        for s in sc:
            s["cfg"]["mode"] = tag or _mode(s["steps"])
            k = s["cfg"]["mode"] + ("_shared" if shared else "_pergroup")
            counts[k] = counts.get(k, 0) + 1
        nid[0] += len(sc)
        out[shared].extend(sc)

    for shared in (True, False):
        base = {"W": str(W), "Shared": _tla_bool(shared), "SigCtx": SIGCTX_CURRENT, "Plan": '"std"'}
        tag = "sh" if shared else "pg"
        # exhaustive: every forgery within MaxDiff field substitutions of an honest envelope x the related receiver
        # calls; every Tamper(envelope, field); honest envelopes only, in every order, to every group (transplants)
        r = ctx.tlc("GenEnvelope", "Gen_Envelope.cfg", name="gen_" + tag, workers=4, timeout=1500, heap="8g",
                    consts=dict(base, MaxDiff="1" if quick else "2", MaxOpen="2"))
        add(shared, r.printed.get("SCRIPT", []), None, limit=None if quick else 30000)
        # the whole field product, sampled by seeded random walks (each forged field drawn independently)
        num = 300 if quick else 3000
        r = ctx.tlc("GenEnvelope", "Gen_Envelope.cfg", name="sim_" + tag, workers=1, simulate="num=%d" % num, depth=12,
                    timeout=1500, heap="8g", consts=dict(base, Mode='{"forge"}', MaxDiff="99", MaxOpen="2", Sample="TRUE"))
        add(shared, r.printed.get("SCRIPT", []), "product", limit=2 * num)
    ctx.extra.setdefault("bounds", {})["scripts_generated"] = counts
    return out


def _honest(sc):
    return {s["a"]["id"]: dict(s["a"], k=s["res"]["k"]) for s in sc["steps"] if s["act"] == "seal"}


def _dk(shared, g, d):
    return d if shared else g + "." + d


def _replay_family(sc):
    """forgeries that re-encrypt an honest (payload, signature) of the same device key for another counter or group
    with the key the adversary legitimately holds: the case the known finding is about (input classification only)"""
    hon = _honest(sc)
    for s in sc["steps"]:
        if s["act"] != "forge":
            continue
        a = s["a"]
        h = hon.get(a["sg"])
        if not h:
            return False
        shared = sc["cfg"]["shared"]
        return (a["pl"] == h["p"] and a["dv"] == _dk(shared, h["g"], h["d"]) and a["kg"] == a["hs"] and a["kd"] == a["dv"]
                and a["kk"] == a["ct"] and a["bn"] == a["ct"] and (a["hs"], a["ct"]) != (h["g"], h["k"])
                and _dk(shared, a["hs"], h["d"]) == a["dv"])
    return False


def _nontrivial(evs):
    opens = [e for e in evs if e.get("ev") == "open"]
    deep = any(e.get("hok") and not e.get("hon") for e in opens)
    return deep or (any(e["ok"] for e in opens) and any(not e["ok"] for e in opens))


def run(ctx, replay=None):
    ov = ctx.overlay({PKG: FILES})
    if replay:
        rp = json.load(open(replay))
        sc = rp["script"]
        groups = {True: [], False: []}
        groups[bool(sc["cfg"]["shared"])].append(sc)
        runs = [sc]
    else:
        _model_check(ctx)
        groups = _gen(ctx)
        # each script runs in every group type of its kind of world
        runs, nid = [], 0
        for shared, scripts in groups.items():
            expanded = []
            for j, sc in enumerate(scripts):
                gts = GTYPES[shared]
                if ctx.tier == "quick" and len(gts) > 1:   # quick tier: alternate instead of running both
                    gts = [gts[(j + ctx.seed) % len(gts)]]
                for gt in gts:
                    s2 = {"id": nid, "cfg": dict(sc["cfg"], gtype=gt), "steps": sc["steps"]}
                    nid += 1
                    expanded.append(s2)
            # model-independent variant of a sample of the forgery scripts: before the forged entry is presented, the
            # attacker relays the honest envelopes as push payloads whose CID field names the forged entry
            forg = [x for x in expanded if x["cfg"].get("mode") in ("forge", "product")]
            npf = 60 if ctx.tier == "quick" else 600
            for x in (forg if len(forg) <= npf else ctx.rng.sample(forg, npf)):
                expanded.append({"id": nid, "cfg": dict(x["cfg"], pushfirst=True), "steps": x["steps"]})
                nid += 1
            groups[shared] = expanded
            runs.extend(expanded)
    if not runs:
        raise vf.Infra("no scripts generated")
    byid_sc = {s["id"]: s for s in runs}
    events, _ = vf.run_driver(ctx, PKG, DRV, ov, runs, "envelope", timeout=1500)
    byid = dict(vf.split_traces(events))
    if set(byid) != set(byid_sc):
        raise vf.Infra("driver did not record every script")
    presented = flips = 0
    for shared in (True, False):
        scripts = groups[shared]
        if not scripts:
            continue
        cconsts = {"W": str(W), "Shared": _tla_bool(shared), "SigCtx": SIGCTX_CURRENT}
        pushf = [s for s in scripts if s["cfg"].get("pushfirst")]
        fam = [s for s in scripts if _replay_family(s) and not s["cfg"].get("pushfirst")]
        rest = [s for s in scripts if not _replay_family(s) and not s["cfg"].get("pushfirst")]
        cap = 2 if ctx.tier == "quick" else 10
        if len(fam) > cap:
            fam = sorted(ctx.rng.sample(fam, cap), key=lambda s: s["id"])
        for part, name, maxrej in ((rest, "rest", 3), (fam, "replayfam", len(fam) + 1), (pushf, "pushfirst", 8)):
            if not part:
                continue
            evs = []
            for s in part:
                evs.append({"ev": "reset", "id": s["id"]})
                evs.extend(byid[s["id"]])
            nm = "%s_%s" % ("shared" if shared else "pergroup", name)
            acc, rejects = vf.validate_blocks(ctx, MON, evs, nm, consts=cconsts, conf=None if name == "pushfirst" else CONF, max_rejects=maxrej, timeout=1500)
            ctx.evaluations += len(part)
            for s in part:
                ev = byid[s["id"]]
                presented += sum(1 for e in ev if e.get("ev") == "open")
                flips += sum(1 for e in ev if e.get("ev") == "open" and "bit" in e)
                if _nontrivial(ev):
                    ctx.distinct_nontrivial += 1
            for rj in rejects:
                sc = byid_sc[rj["id"]]
                line = rj["info"].get("line", {})
                what = "real secret store breaks C01 in a %s group at step %s: observed %s" % (sc["cfg"]["gtype"], rj["at"], json.dumps(line, sort_keys=True))
                obj = {"script": sc, "observed": rj["events"], "rejected_line": line, "step": rj["at"]}
                if _replay_family(sc) and line.get("ev") == "open" and line.get("e") == "f" and line.get("ok"):
                    ctx.classify(KNOWN_KEY, "a fellow member re-encrypts another device's signed payload for another counter/group and it is delivered: " + what, obj)
                else:
                    ctx.violation(what, obj)
            for s in part:
                if len(ctx.samples) < 4 and _nontrivial(byid[s["id"]]) and s["cfg"]["mode"] in ("forge", "product") and len(byid[s["id"]]) < 12:
                    ctx.add_samples([{"cfg": s["cfg"], "script": [dict(act=x["act"], a=x["a"]) for x in s["steps"]], "observed": byid[s["id"]][-2:]}], limit=4)
                    break
    unbuilt = [e for e in events if e.get("ev") == "forge" and not e.get("built", True)]
    ctx.extra["forgeries_not_built"] = len(unbuilt)
    if unbuilt and not ctx.violations and not ctx.known:
        raise vf.Infra("the attacker library could not build %d forgeries (%s): the driver needs an update, no claim is made" % (len(unbuilt), unbuilt[0].get("err")))
    ctx.extra["presented_envelopes"] = presented
    ctx.extra["single_bit_flips"] = flips
    ctx.extra.setdefault("bounds", {})["scripts_run"] = {("shared" if k else "pergroup"): len(v) for k, v in groups.items()}
    ctx.assumptions += ["symbolic view of keys, signatures and payloads (perfect primitives); concrete bytes from VERIF_SEED",
                        "the CID given to OpenEnvelopePayload is the identifier of the presented bytes",
                        "header re-randomisation of an unchanged honest envelope by a member and the adversary equivocating under its own device key are outside the property",
                        "GroupMessageEvent emission by the message store (root package) is not observed here",
                        "TLC 1.8.0, Go toolchain, in-memory datastore"]
    return ctx.finish(level="model_checking",
                      rule="scripts = honest history (5 envelopes, 3 devices, 2 groups) + one adversary move + receiver calls: every forgery within MaxDiff field substitutions of an honest envelope (exhaustive), seeded walks over the full field product, every Tamper(field) concretised as single-bit flips / emptied fields, honest envelopes in every order to every group; each in the three group types; non-trivial = a non-honest envelope got past the header stage, or accepted and refused calls in one script",
                      exhaustive=False,
                      technique="TLA+ spec Envelope.tla model-checked by TLC over the full forgery product; TLC-generated scripts replayed on real secret stores (attacker = real member store); recorded traces checked by TLC against the property monitor MonEnvelope.tla (verdict) and the full spec TraceEnvelope.tla (conformance/drift)")
