"""C14 at the service layer: api_app.go (OutOfStoreSeal / OutOfStoreReceive), store_message.go
(GetOutOfStoreMessageEnvelope / GetMessageByCID and the message store's log path) and the standalone
pkg/outofstoremessage service, which checks/ratchet.py (bare secret stores) does not reach.

run_part(ctx, replay_obj=None) adds its TLC runs, evaluations, samples and violations to the given ctx and does
NOT call ctx.finish (stand-alone development entry: checks/c14svc.py -> `bin/check C14svc`).

1. scripts: (i) GenRatchet.tla with WithPush=TRUE (the model Ratchet.tla is model-checked by the C14 check itself)
   enumerates phased histories seal / announce / register / open / push for small windows; they are mapped to
   service-level steps: seal -> AppMessageSend, announce -> the sender's node learns of the receiver (its handler
   publishes its chain key at that counter), register -> the receiver's node gets that metadata entry, open(k) ->
   the receiver's message store gets the log entry of message k (k not yet delivered) or GroupMessageList (k
   already delivered), push(k) -> OutOfStoreSeal at the sender + OutOfStoreReceive at the receiver's service, at a
   standalone pkg/outofstoremessage service over the receiver's root datastore, or at that service's gRPC client;
   (ii) model-independent random sessions (two senders, push twice, push before and after the log, old and future
   counters around the reference window, registration late or never); (iii) malformed requests: OutOfStoreSeal for
   a CID of another group / of a metadata entry / unknown / unparsable / under a foreign or a wrong group key /
   at a node that does not have the message, OutOfStoreReceive of bit flips, truncations and of a payload of a
   group the receiver never joined;
2. harness/root/vf_pushsvc_verif_test.go replays them on three real protocol services over one in-memory IPFS
   node, replication by hand (BaseStore.Sync), observations taken at quiescence;
3. verdict: specs/MonPushSvc.tla (EXTENDS MonRatchet) evaluated by TLC over the recorded values."""
import json, os, threading
import vf

PKG = "."
FILES = ["vf_pushsvc_verif_test.go"]
DRV = "^TestVerifPushSvc$"
MON = ("MonPushSvc", "Mon_PushSvc.cfg")
VIAS = ["svc", "off", "offc"]
SEALBAD = ["othergroup", "crossgk", "meta", "unknown", "garbage", "foreigngk", "peermsg"]
PUSHLIKE = ("push", "sealbad", "recvbad")

ASSUMPTIONS = [
    "service layer: three protocol services (two senders, one receiver) share one in-memory IPFS node; groups are "
    "activated LocalOnly and log entries move only by BaseStore.Sync on request of the script (delivering the entry of "
    "message k delivers the sender's earlier entries with it: a sender's log is a chain)",
    "observations are taken when no goroutine running berty.tech/* code is runnable, running or blocked on a lock / "
    "channel send (runtime.Stack snapshot); a wait longer than 30 s is an infrastructure error",
    "the standalone pkg/outofstoremessage service is built with WithRootDatastore only (production path) for the default "
    "windows 100/100; small windows are an option of the secret store alone and are handed over with WithSecretStore",
]


def op(act, d="d1", x=0, s="", y=0):
    return {"act": act, "d": d, "x": x, "y": y, "s": s, "res": {}}


def map_history(h, sid):
    """GenRatchet history -> service-level steps (None: no service-level counterpart)"""
    steps, dlv, ann, npush = [], {}, set(), 0
    for st in h:
        act, d, x = st["act"], st["d"], st["x"]
        if act == "seal":
            steps.append(op("send", d))
        elif act == "announce":
            if d in ann:
                return None     # a node publishes its chain key for a member once
            ann.add(d)
            steps.append(op("announce", d))
        elif act == "register":
            steps.append(op("register", d))
        elif act == "open":
            if x > dlv.get(d, 0):
                dlv[d] = x
                steps.append(op("deliver", d, x))
            else:
                steps.append(op("list"))
        elif act == "push":
            steps.append(op("push", d, x, VIAS[(sid + npush) % 3]))
            npush += 1
        else:
            return None
    steps.append(op("list"))
    return steps


def blind_session(rng, W, N, length, streams):
    """random session, no model behind it"""
    st = {d: {"sent": 0, "ann": False, "reg": False, "dlv": 0, "last": 0} for d in streams}
    maxsent = min(2 * W + 2 * N + 3, 12) if W <= 4 else 10
    steps = []
    late = rng.random() < 0.25      # registration late (or never): everything before it must be refused
    for d in streams:
        for _ in range(rng.choice([0, 0, 1, 2])):
            steps.append(op("send", d))
            st[d]["sent"] += 1
        if not late:
            steps.append(op("announce", d))
            st[d]["ann"] = True
            if rng.random() < 0.85:
                steps.append(op("register", d))
                st[d]["reg"] = True
    while len(steps) < length:
        d = rng.choice(streams)
        s = st[d]
        c = rng.random()
        if c < 0.22 and s["sent"] < maxsent:
            steps.append(op("send", d))
            s["sent"] += 1
        elif c < 0.27 and not s["ann"]:
            steps.append(op("announce", d))
            s["ann"] = True
        elif c < 0.34 and s["ann"] and not s["reg"]:
            steps.append(op("register", d))
            s["reg"] = True
        elif c < 0.50 and s["dlv"] < s["sent"]:
            k = rng.randint(s["dlv"] + 1, s["sent"]) if rng.random() < 0.5 else s["dlv"] + 1
            steps.append(op("deliver", d, k))
            s["dlv"] = s["last"] = k
        elif c < 0.92 and s["sent"] > 0:
            # push: any message, with a preference for the neighbourhood of the last counter seen and for repeats
            r = rng.random()
            if r < 0.4 and s["last"]:
                k = s["last"] + rng.choice([-N - 1, -N, -N + 1, -1, 0, 1, N - 1, N, N + 1])
            elif r < 0.6 and s["dlv"]:
                k = rng.randint(1, s["dlv"])
            else:
                k = rng.randint(1, s["sent"])
            k = max(1, min(s["sent"], k))
            via = rng.choice(VIAS)
            steps.append(op("push", d, k, via))
            s["last"] = k
            if rng.random() < 0.25:
                steps.append(op("push", d, k, rng.choice(VIAS)))
        elif c < 0.97:
            steps.append(op("list"))
    steps.append(op("list"))
    # whatever was pushed: a final delivery of everything and a last listing
    for d in streams:
        if st[d]["sent"] > st[d]["dlv"]:
            steps.append(op("deliver", d, st[d]["sent"]))
    steps.append(op("list"))
    return steps


def bad_session(rng, W, bits, via):
    """malformed requests around a small honest session"""
    n = min(W, 3) + 1
    steps = [op("announce"), op("register")] + [op("send") for _ in range(n)]
    steps += [op("send", "e1"), op("send", "f1"), op("deliver", "d1", 1), op("push", "d1", 1, via), op("push", "d1", 2, via)]
    bad = [op("sealbad", s=k) for k in SEALBAD]
    bad += [op("recvbad", s="unkgroup@" + via), op("recvbad", "d1", 2, "trunc@" + via), op("recvbad", "d1", 2, "flip@" + via, bits),
            op("recvbad", "d1", 1, "flip@" + via, min(bits, 64) if bits else 64)]
    rng.shuffle(bad)
    steps += bad
    # the honest traffic still works afterwards
    steps += [op("push", "d1", 2, via), op("deliver", "d1", n), op("push", "d1", n, via), op("list")]
    return steps


def walk_session(rot, n=9):
    """deterministic walk over old and future counters, alternating the node's service and the standalone one"""
    v = lambda i: VIAS[(i + rot) % 3]      # noqa
    steps = [op("announce"), op("register")] + [op("send") for _ in range(n)]
    steps += [op("push", "d1", n - 1, v(1)), op("push", "d1", 1, v(0)), op("push", "d1", 4, v(2)), op("deliver", "d1", 2),
              op("push", "d1", 1, v(1)), op("push", "d1", 2, v(0)), op("push", "d1", n, v(0)), op("push", "d1", 3, v(2)),
              op("deliver", "d1", n), op("push", "d1", 4, v(1)), op("push", "d1", n, v(2)), op("push", "d1", 1, v(0)), op("list")]
    return steps


def gen_scripts(ctx):
    quick = ctx.tier == "quick"
    groups = {}
    nid = [500000]      # ids disjoint from the ratchet part's

    def add(W, N, steps, kind):
        groups.setdefault((W, N), []).append({"id": nid[0], "cfg": {"W": W, "N": N}, "steps": steps, "kind": kind})
        nid[0] += 1
    # (i) TLC: phased histories of GenRatchet with push actions
    plans = [(1, 1, 2, 4, 36), (2, 2, 3, 3, 36)] if quick else \
            [(1, 1, 3, 4, 120), (2, 1, 3, 4, 120), (2, 2, 3, 4, 120), (3, 2, 4, 3, 100), (1, 2, 3, 4, 100)]
    jobs = []
    for (W, N, ms, ml, lim) in plans:
        jobs.append(lambda W=W, N=N, ms=ms, ml=ml: ctx.tlc(
            "GenRatchet", "Gen_Ratchet.cfg", name="psvc_gen_W%d_N%d" % (W, N), workers=1 if quick else 2,
            consts={"W": str(W), "N": str(N), "MaxSent": str(ms), "MaxLen": str(ml), "WithPush": "TRUE"}, timeout=1200, heap="4g"))
    res = _parallel(jobs, 3)
    for (W, N, ms, ml, lim), r in zip(plans, res):
        hs = vf.scripts_from_tlc(r.printed.get("SCRIPT", []))
        # histories with at least one push and one log step are the ones that say something here
        cand = [h["steps"] for h in hs if any(s["act"] == "push" and s["res"].get("ok") for s in h["steps"])
                and any(s["act"] == "open" for s in h["steps"])]
        ctx.extra.setdefault("pushsvc_generated", {})["W%d_N%d" % (W, N)] = len(cand)
        cand = [h for h in cand if map_history(h, 0) is not None]
        if len(cand) > lim:
            cand = ctx.rng.sample(cand, lim)
        for h in cand:
            add(W, N, map_history(h, nid[0]), "tlc")
    # (ii) model-independent sessions
    cfgs = [(1, 1), (2, 1), (2, 2), (3, 2), (100, 100)] if quick else [(1, 1), (2, 1), (1, 2), (2, 2), (3, 2), (4, 3), (100, 100)]
    for (W, N) in cfgs:
        for j in range(9 if quick else 66):
            # one sender, two senders in one group, one sender in two groups shared with the receiver
            add(W, N, blind_session(ctx.rng, W, N, ctx.rng.choice([14, 20, 28]), [["d1"], ["d1", "e1"], ["d1", "d2"]][j % 3]), "blind")
        for rot in range(1 if quick else 3):
            add(W, N, walk_session(rot), "walk")
    # (iii) malformed requests
    for (W, N) in ([(2, 2), (100, 100)] if quick else cfgs):
        for via in VIAS if not quick else ["svc", "off"]:
            add(W, N, bad_session(ctx.rng, W, 96 if quick else 0, via), "bad")
    return groups


def _parallel(jobs, width):
    res, err = [None] * len(jobs), []
    sem = threading.Semaphore(width)

    def work(i, f):
        with sem:
            try:
                res[i] = f()
            except BaseException as e:      # noqa
                err.append(e)
    ts = [threading.Thread(target=work, args=(i, f)) for i, f in enumerate(jobs)]
    for t in ts:
        t.start()
    for t in ts:
        t.join()
    if err:
        raise err[0]
    return res


def _nontrivial(evs):
    pushes = [e for e in evs if e.get("ev") == "push"]
    good = [e for e in pushes if e.get("ok")]
    return any(e.get("ev") == "register" for e in evs) and bool(good) and (
        any(not e.get("ok") for e in pushes) or any(e.get("already") for e in good) or any(e.get("ev") in ("sealbad", "recvbad") for e in evs))


def _strip(sc):
    return {"id": sc["id"], "cfg": sc["cfg"], "steps": [s for s in sc["steps"] if s["act"] not in PUSHLIKE], "kind": sc.get("kind")}


def run_part(ctx, replay_obj=None):
    ov = ctx.overlay({PKG: FILES})
    # lib/vf.py writes every overlay of a ctx to the same file: keep a private copy for the whole part
    ovp = os.path.join(ctx.sub("pushsvc"), "overlay.json")
    with open(ov) as f, open(ovp, "w") as g:
        g.write(f.read())
    build = {}

    def compile_driver():
        try:
            build["bin"] = ctx.go_test_compile(PKG, ovp, name="pushsvc")
        except BaseException as e:      # noqa
            build["err"] = e
    bt = threading.Thread(target=compile_driver)
    bt.start()
    try:
        if replay_obj is not None:
            sc = replay_obj["script"]
            groups = {(sc["cfg"]["W"], sc["cfg"]["N"]): [sc]}
        else:
            groups = gen_scripts(ctx)
    finally:
        bt.join()
    if "err" in build:
        raise build["err"]
    allscripts = {}
    ordered = []
    for key in sorted(groups):
        for s in groups[key]:
            allscripts[s["id"]] = s
            ordered.append(s)
    if not allscripts:
        raise vf.Infra("no service-level scripts generated")
    shards = 6

    def drive(scripts, name):
        evs = ctx.run_sharded(build["bin"], DRV, PKG, scripts, name, shards=shards, timeout=1500, chunk=10 ** 9)
        return dict(vf.split_traces(evs))
    byid = drive(ordered, "pushsvc")
    if set(byid) != set(allscripts):
        raise vf.Infra("service-level driver did not record every script")
    stats = {"scripts": {}, "pushes": 0, "pushes_opened": 0, "already_true": 0, "pushes_refused": 0, "standalone_pushes": 0,
             "log_deliveries": 0, "list_misses": 0, "bad_seals": 0, "altered_payloads": 0}
    for sid, evs in byid.items():
        for e in evs:
            if e["ev"] == "push":
                stats["pushes"] += 1
                stats["pushes_opened"] += 1 if e.get("ok") else 0
                stats["pushes_refused"] += 0 if e.get("ok") else 1
                stats["already_true"] += 1 if e.get("already") else 0
                stats["standalone_pushes"] += 1 if e.get("via") != "svc" else 0
            elif e["ev"] == "lopen":
                stats["log_deliveries"] += 1
            elif e["ev"] == "lfail":
                stats["list_misses"] += 1
            elif e["ev"] == "sealbad":
                stats["bad_seals"] += 1
            elif e["ev"] == "recvbad":
                stats["altered_payloads"] += e.get("n", 0)
    nv = 0

    def validate(W, N, scripts):
        evs = []
        for s in scripts:
            evs.append({"ev": "reset", "id": s["id"]})
            evs.extend(byid[s["id"]])
        return vf.validate_blocks(ctx, MON, evs, "psvc_W%d_N%d" % (W, N), consts={"W": str(W), "N": str(N)})
    verdicts = _parallel([lambda W=W, N=N, sc=sc: validate(W, N, sc) for (W, N), sc in sorted(groups.items())], 6)
    for ((W, N), scripts), (acc, rejects) in zip(sorted(groups.items()), verdicts):
        consts = {"W": str(W), "N": str(N)}
        ctx.evaluations += len(scripts)
        ctx.distinct_nontrivial += sum(1 for s in scripts if _nontrivial(byid[s["id"]]))
        for s in scripts:
            k = s.get("kind", "replay")
            stats["scripts"][k] = stats["scripts"].get(k, 0) + 1
        for rj in rejects:
            sc = allscripts[rj["id"]]
            line = rj["info"].get("line", {})
            if line.get("ev") not in PUSHLIKE and any(s["act"] in PUSHLIKE for s in sc["steps"]):
                # differential: does the log path break on the same session without any push request?  Then it is
                # the log path's own business (C02 / C08), not C14's
                sc2 = _strip(sc)
                nm = "psvc_diff%d" % sc["id"]
                ev2 = drive([sc2], nm)[sc2["id"]]
                _, rj2 = vf.validate_blocks(ctx, MON, [{"ev": "reset", "id": sc2["id"]}] + ev2, nm, consts=consts)
                ctx.traces_validated -= 0 if rj2 else 1
                if rj2:
                    ctx.extra.setdefault("outside_property", []).append(
                        {"script": sc["id"], "line": line, "note": "the log path fails on this session without any push request: not C14's business"})
                    continue
            what = "service layer breaks %s at step %s of a %s session (W=%d N=%d): observed %s" % (
                ctx.prop, line.get("i", rj["at"]), sc.get("kind", "replayed"), W, N, json.dumps(line, sort_keys=True))
            ctx.violation(what, {"family": "pushsvc", "script": sc, "observed": rj["events"], "rejected_line": line, "step": rj["at"]})
            nv += 1
        for s in scripts:
            if _nontrivial(byid[s["id"]]) and sum(1 for x in ctx.samples if isinstance(x, dict) and x.get("family") == "pushsvc") < 2:
                ctx.add_samples([{"family": "pushsvc", "cfg": s["cfg"], "kind": s.get("kind"), "script": s["steps"], "observed": byid[s["id"]]}], limit=8)
                break
    ctx.extra["pushsvc"] = stats
    ctx.assumptions += [a for a in ASSUMPTIONS if a not in ctx.assumptions]
    return nv


RULE = ("service layer: scripts = sampled phased GenRatchet histories with push actions mapped to service requests, "
        "model-independent random sessions and malformed-request sessions; non-trivial = a registration, an opened push "
        "and a refused push, an AlreadyReceived push or a malformed request")
TECHNIQUE = ("service layer: TLC-generated and random sessions replayed on real protocol services (OutOfStoreSeal / "
             "OutOfStoreReceive, message store log path, standalone pkg/outofstoremessage service) with replication by hand; "
             "recorded replies checked by TLC against the property monitor MonPushSvc.tla (EXTENDS MonRatchet)")
