import queue_check


def run(ctx, replay=None):
    return queue_check.run(ctx, replay)
