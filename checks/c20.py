import exportrestore


def run(ctx, replay=None):
    return exportrestore.run(ctx, replay)
