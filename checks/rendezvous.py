"""C17: specs/Rendezvous.tla bound to pkg/rendezvous (rotation cache, pure functions)."""
import json, os, re, shutil
from concurrent.futures import ThreadPoolExecutor
import vf

PKG = "pkg/rendezvous"
SHIM = "zz_vfclock_verif.go"
FILES = [SHIM, "vf_rendezvous_verif_test.go", "vf_rdvproj_verif_test.go"]
MON = ("MonRendezvous", "Mon_Rendezvous.cfg")
CONF = ("TraceRendezvous", "Trace_Rendezvous.cfg")
DRV = "^TestVerifRendezvousReplay$"
DRV_RT = "^TestVerifRendezvousRealtime$"
DRV_PURE = "^TestVerifRendezvousPure$"
POOL = 4
EPOCH = 1700000000
DAY = 86400


def _overlay(ctx, name, pkgs, replace=None):
    """ctx.overlay always writes <scratch>/overlay/overlay.json: keep a private copy per use, made
    before any thread starts"""
    p = ctx.overlay(pkgs, replace=replace)
    q = os.path.join(os.path.dirname(p), "overlay_%s.json" % name)
    shutil.copy(p, q)
    return q


def _par(jobs):
    with ThreadPoolExecutor(max_workers=POOL) as ex:
        futs = [ex.submit(j) for j in jobs]
        return [f.result() for f in futs]


# ------------------------------------------------------------------ virtual-clock rewrite
CLOCK = {"Now": "vfClockNow", "Until": "vfClockUntil", "Since": "vfClockSince",
         "AfterFunc": "vfClockAfterFunc", "Timer": "vfTimer"}
# uses of package time that do not read the clock or arm a timer
PURE = {"Time", "Duration", "Location", "Month", "Weekday", "Nanosecond", "Microsecond", "Millisecond",
        "Second", "Minute", "Hour", "Unix", "UnixMilli", "UnixMicro", "Date", "UTC", "Local", "FixedZone",
        "ParseDuration", "Parse", "RFC3339", "RFC3339Nano", "January", "February", "March", "April", "May",
        "June", "July", "August", "September", "October", "November", "December"}


def _code_spans(src):
    """yield (start, end, is_code) over Go source: comments, strings and runes are not code"""
    i, n, start = 0, len(src), 0
    while i < n:
        c = src[i]
        two = src[i:i + 2]
        if two == "//":
            j = src.find("\n", i)
            j = n if j < 0 else j
        elif two == "/*":
            j = src.find("*/", i + 2)
            j = n if j < 0 else j + 2
        elif c == '"':
            j = i + 1
            while j < n and src[j] != '"':
                j += 2 if src[j] == "\\" else 1
            j += 1
        elif c == "`":
            j = src.find("`", i + 1)
            j = n if j < 0 else j + 1
        elif c == "'":
            j = i + 1
            while j < n and src[j] != "'":
                j += 2 if src[j] == "\\" else 1
            j += 1
        else:
            i += 1
            continue
        if i > start:
            yield start, i, True
        yield i, j, False
        i = start = j
    if start < n:
        yield start, n, True


def rewrite_clock(src, fname):
    """time.Now/Until/Since/AfterFunc (and the Timer type) -> virtual clock shim; anything else of
    package time that is not known to be pure is refused (vf.Infra)"""
    m = re.search(r'^import\s*\(([^)]*)\)', src, re.M)
    imports = m.group(1) if m else "\n".join(re.findall(r'^import\s+(.*)$', src, re.M))
    if re.search(r'\w+\s+"time"', imports) or re.search(r'\.\s+"time"', imports):
        raise vf.Infra("%s imports package time under another name: clock substitution not understood" % fname)
    out, used = [], set()
    for a, b, code in _code_spans(src):
        seg = src[a:b]
        if code:
            def sub(mm):
                name = mm.group(1)
                if name in CLOCK:
                    used.add(name)
                    return CLOCK[name]
                if name in PURE:
                    return mm.group(0)
                raise vf.Infra("time.%s in %s: not understood by the clock substitution of C17" % (name, fname))
            seg = re.sub(r'(?<![\w.])time\.([A-Za-z_]\w*)', sub, seg)
        out.append(seg)
    res = "".join(out)
    if '"time"' in imports:
        res += "\n\nvar _ = time.Second // keeps the import used after the clock substitution\n"
    return res, used


def rewritten_sources(ctx):
    """instrumented copies of the package files that define the rotation machinery"""
    d = ctx.sub("rdv_src")
    rep, info = {}, {}
    pdir = os.path.join(vf.REPO, PKG)
    for fn in sorted(os.listdir(pdir)):
        if not fn.endswith(".go") or fn.endswith("_test.go"):
            continue
        src = open(os.path.join(pdir, fn)).read()
        if not re.search(r'\b(RotationInterval|RoundTimePeriod|GenerateRendezvousPointForPeriod)\b', src):
            continue
        new, used = rewrite_clock(src, fn)
        dst = os.path.join(d, fn)
        with open(dst, "w") as f:
            f.write(new)
        rep[os.path.join(PKG, fn)] = dst
        info[fn] = sorted(used)
    if not any(info.values()):
        raise vf.Infra("no clock read found in %s: the rotation machinery moved, clock substitution impossible" % PKG)
    ctx.extra["clock_substitution"] = info
    return rep


# ------------------------------------------------------------------ abstract configurations
def _reach(steps, maxticks, T):
    s = {0}
    for _ in range(maxticks):
        s |= {a + b for a in s for b in steps if a + b <= T}
    return sorted(s)


class Abs:
    """one abstract configuration of Rendezvous.tla and its real scale"""
    def __init__(self, name, I, u, steps, maxticks, topics=("t1",), offsets=((0, 0),)):
        self.name, self.I, self.u, self.steps, self.maxticks = name, I, u, sorted(steps), maxticks
        self.topics, self.offsets = list(topics), list(offsets)
        self.G = DAY // u                      # DefaultRotationInterval in ticks (rounded down)
        if DAY % u:
            raise vf.Infra("tick unit must divide 24 h")
        self.Gmin = 600 // u                   # RotationGracePeriod (10 min) in whole ticks
        self.Sec = 1 if u == 1 else 0
        self.T = max(_reach(self.steps, maxticks, 10 ** 8))
        self.periods = sorted({p for n in _reach(self.steps, maxticks, self.T) for p in (n // I, n // I + 1)})

    def consts(self, impl, maxlen=None):
        c = {"I": str(self.I), "G": str(self.G), "Gmin": str(self.Gmin), "Sec": str(self.Sec),
             "Steps": "{" + ", ".join(map(str, self.steps)) + "}", "T": str(self.T), "MaxTicks": str(self.maxticks),
             "Topics": "{" + ", ".join('"%s"' % t for t in self.topics) + "}", "ImplExpired": '"%s"' % impl}
        if maxlen:
            c["MaxLen"] = str(maxlen)
        return c

    def cfg(self, gid, off, realtime=False):
        isec = self.I * self.u
        return {"I": self.I, "u": self.u, "off_s": off[0], "off_ns": off[1], "base": (EPOCH // isec) * isec,
                "periods": self.periods, "topics": self.topics, "seeds": ["s1", "s2"], "gid": gid,
                "realtime": realtime, "abs": self.name}


IMPLS = ("ttl_le_0", "ttl_gt_0")


def _strip(h):
    return [{k: v for k, v in st.items() if k != "res"} for st in h]


def _collect(results, caps):
    """distinct histories of several TLC runs; caps[i] bounds what is taken from run i (TLC's
    simulator prints more walks than asked for)"""
    seen, out = set(), []
    for r, cap in zip(results, caps):
        n = 0
        for h in r.printed.get("SCRIPT", []):
            if cap is not None and n >= cap:
                break
            s = _strip(h)
            k = json.dumps(s, sort_keys=True)
            if k not in seen:
                seen.add(k)
                out.append(s)
                n += 1
    out.sort(key=lambda s: json.dumps(s, sort_keys=True))
    return out


def _nontrivial(steps):
    acts = [s["act"] for s in steps]
    if "tick" not in acts:
        return False
    i = acts.index("tick")
    return "register" in acts[:i] and any(a in ("resolve", "accept") for a in acts[i:])


# ------------------------------------------------------------------ validation of one group
def _validate_groups(ctx, groups, name, max_rejects=3, timeout=1500):
    """monitor over several groups; groups = [(head block, [script blocks])], a head block being the
    configuration + digest table of its group.  Like vf.validate_blocks: after a rejected block the
    remainder is validated again - with the head of its group in front."""
    d = ctx.sub("val_" + name)
    rejects, good, rounds = [], 0, 0
    todo = [(h, list(bl)) for h, bl in groups]
    while todo:
        rounds += 1
        flat, index = [], []          # index: (start line, group no, block no or -1 for the head)
        for gi, (head, bl) in enumerate(todo):
            index.append((len(flat), gi, -1))
            flat.append({"ev": "reset", "id": head[0]})
            flat.extend(head[1])
            for bi, (bid, e) in enumerate(bl):
                index.append((len(flat), gi, bi))
                flat.append({"ev": "reset", "id": bid})
                flat.extend(e)
        tp = os.path.join(d, "t%d.ndjson" % rounds)
        vf.write_ndjson(tp, flat)
        ok, info = ctx.validate_trace(MON[0], MON[1], tp, name="%s_mon%d" % (name, rounds), timeout=timeout)
        if ok:
            good += sum(len(bl) for _, bl in todo)
            break
        if "high" not in info:
            raise vf.Infra("monitor broke on observed trace: %s" % info)
        pos = info["high"]
        start, gi, bi = max(x for x in index if x[0] <= pos)
        good += sum(len(bl) for _, bl in todo[:gi])
        head, bl = todo[gi]
        if bi < 0:
            # the digest table itself is refused: the rest of this group cannot be read
            rejects.append({"id": head[0], "info": info, "events": head[1], "at": pos - start - 1})
            todo = todo[gi + 1:]
        else:
            rejects.append({"id": bl[bi][0], "info": info, "events": bl[bi][1], "at": pos - start - 1})
            good += bi
            todo = ([(head, bl[bi + 1:])] if bl[bi + 1:] else []) + todo[gi + 1:]
        if len(rejects) >= max_rejects:
            break
    ctx.traces_validated += good
    return good, rejects


def _validate_abs(ctx, a, groups, impl_hint, key=None):
    """monitor (verdict) + conformance with the expiry predicate that matches the tree"""
    name = "abs_" + (key or a.name)
    acc, rejects = _validate_groups(ctx, groups, name)
    impl_ok = None
    if not rejects:
        evs = []
        for head, bl in groups:
            for bid, e in bl:
                evs.append({"ev": "reset", "id": bid})
                evs.extend(e)
        d = ctx.sub("val_" + name)
        tp = os.path.join(d, "strict.ndjson")
        vf.write_ndjson(tp, evs)
        order = [impl_hint[0]] + [i for i in IMPLS if i != impl_hint[0]] if impl_hint[0] else list(IMPLS)
        last = None
        for impl in order:
            c = a.consts(impl)
            c.update({"T": "100000000", "MaxTicks": "100000000", "Topics": '{"t1", "t2"}'})
            ok, info = ctx.validate_trace(CONF[0], CONF[1], tp, name="%s_conf_%s" % (name, impl), strict=True,
                                          timeout=1500, consts=c)
            if ok:
                impl_ok = impl
                impl_hint[0] = impl
                break
            last = info
        if impl_ok is None:
            rec = {"trace": name, "info": {k: last.get(k) for k in ("high", "line", "invariant")}}
            ctx.drift.append(rec)
            vf.log("model drift (full-spec conformance) in", name, str(rec)[:400])
        else:
            ctx.extra["conformant_traces"] = ctx.extra.get("conformant_traces", 0) + acc
    return acc, rejects, impl_ok


def _abstract_outcomes(evs):
    """what a run looks like independently of absolute time: per step (ok, decoded point, deadline in the future)"""
    out = []
    for e in evs:
        if e["ev"] in ("resolve", "accept"):
            dl = e.get("dl", e.get("rdl", 0))
            out.append((e["ev"], e["i"], e["ok"], json.dumps(e.get("pt"), sort_keys=True), (dl > e["now"]) if e["ok"] else None))
    return out


def run(ctx, replay=None):
    quick = ctx.tier == "quick"
    rep = rewritten_sources(ctx)
    ov_virtual = _overlay(ctx, "virtual", {PKG: FILES}, replace=rep)
    ov_real = _overlay(ctx, "real", {PKG: FILES})          # no source replaced: real clock
    ov_mm = _overlay(ctx, "marshaler", {".": ["vf_marshaler_verif_test.go"], PKG: [SHIM]}, replace=rep)
    ov_store = _store_overlay(ctx, rep)
    if replay:
        rp = json.load(open(replay))
        if rp.get("family") == "rdvstore":
            _store_layer(ctx, ov_store)
            return _finish(ctx)
        return _replay(ctx, rp, ov_virtual, ov_mm)

    off_sub = [(0, 0), (0, 1), (599, 999999999), (600, 0)]
    # Abs(name, ticks per period, seconds per tick, tick increments, number of ticks);
    # bfs = exhaustive history length (0: random walks only); per offset: how many histories
    if quick:
        confs = [(Abs("day2", 2, 43200, {1}, 4, offsets=off_sub[:3] + [(43199, 999999999)]), 4, 150, 9, [None, 500, 500, 400]),
                 (Abs("min1", 1, 600, {1, 144}, 3, offsets=[(0, 0), (599, 0)]), 0, 400, 8, [None, 250]),
                 (Abs("sec2", 2, 1, {1}, 3, offsets=[(0, 500000000)]), 0, 400, 7, [None])]
    else:
        confs = [(Abs("day2", 2, 43200, {1}, 5, offsets=off_sub + [(43199, 999999999)]), 5, 1500, 12, [20000, 3000, 3000, 3000, 3000]),
                 (Abs("day1", 1, 86400, {1, 2}, 4, offsets=off_sub[:3]), 4, 1000, 10, [None, 2000, 2000]),
                 (Abs("min1", 1, 600, {1, 144}, 4, offsets=[(0, 0), (599, 0), (1, 0)]), 4, 1000, 10, [None, 2000, 2000]),
                 (Abs("min2", 2, 600, {1, 143, 145}, 4, offsets=[(0, 0), (599, 999999999)]), 0, 2500, 10, [None, 1500]),
                 (Abs("sec2", 2, 1, {1, 600, 86400}, 4, offsets=[(0, 500000000), (0, 0)]), 4, 1000, 10, [None, 2000]),
                 (Abs("sec1", 1, 1, {1}, 4, offsets=[(0, 500000000)]), 0, 1500, 9, [None]),
                 (Abs("two", 2, 43200, {1}, 3, topics=("t1", "t2"), offsets=[(0, 0)]), 0, 3000, 9, [None])]

    # ---- 1. model checking of the design: the property holds with the deadline-passed predicate,
    #         and P_Resolve breaks with the predicate as written (design-level reading of the suspicion)
    mc = {"Topics": '{"t1"}', "T": "3" if quick else "5", "MaxTicks": "3" if quick else "5"}
    jobs = [lambda: ctx.tlc_expect_ok("Rendezvous", "MC_Rendezvous.cfg", name="mc_I2", workers=2, consts=mc, timeout=1500),
            lambda: ctx.tlc("Rendezvous", "MC_Rendezvous.cfg", name="mc_I2_aswritten", workers=1,
                            consts=dict(mc, ImplExpired='"ttl_gt_0"'), allow_violation=True, count=False)]
    if not quick:
        jobs.append(lambda: ctx.tlc_expect_ok("Rendezvous", "MC_Rendezvous.cfg", name="mc_I1", workers=2,
                                              consts=dict(mc, I="1", G="2", Gmin="1", T="2", MaxTicks="2"), timeout=1500))
        jobs.append(lambda: ctx.tlc_expect_ok("Rendezvous", "MC_Rendezvous.cfg", name="mc_leap", workers=2,
                                              consts=dict(mc, I="1", G="144", Gmin="1", Steps="{1, 144}", T="300", MaxTicks="2"),
                                              timeout=1500))
    # ---- 2. generation (both expiry predicates: the values peers can exchange depend on it)
    gj, gcaps = [], []
    for a, bfs, sim, simlen, _ in confs:
        js = []
        gcaps.append(([None] if bfs else []) * 1 + [sim])
        gcaps[-1] = gcaps[-1] * len(IMPLS)
        for impl in IMPLS:
            if bfs:
                js.append(lambda a=a, impl=impl, bfs=bfs: ctx.tlc(
                    "GenRendezvous", "Gen_Rendezvous.cfg", name="gen_%s_%s" % (a.name, impl), workers=1,
                    consts=a.consts(impl, bfs), timeout=1500, heap="4g"))
            js.append(lambda a=a, impl=impl, sim=sim, simlen=simlen: ctx.tlc(
                "GenRendezvous", "Gen_Rendezvous.cfg", name="sim_%s_%s" % (a.name, impl), workers=1,
                simulate="num=%d" % max(10, sim // 8), depth=simlen + 2, consts=a.consts(impl, simlen), timeout=1500, heap="4g"))
        gj.append(js)
    res = _par(jobs + [j for js in gj for j in js])
    ctx.extra["design_level"] = {"ttl_le_0": "all invariants hold", "ttl_gt_0": "violates " + str(res[1].violated)}
    if res[1].violated != "P_Resolve":
        raise vf.Infra("model self-test: the as-written expiry predicate should break P_Resolve in Rendezvous.tla")
    pos = len(jobs)
    scripts, groups = [], []          # groups: (gid, Abs, off, [script ids])
    for (a, bfs, sim, simlen, per_off), js, caps in zip(confs, gj, gcaps):
        hs = _collect(res[pos:pos + len(js)], caps)
        pos += len(js)
        if not hs:
            raise vf.Infra("no history generated for " + a.name)
        # model-independent variants: every accept three times, every resolve twice (a lookup must not change what
        # the next lookup of the same value answers: "keeps accepting its own previous rotation value during the
        # grace period"); the exhaustive histories are too short to repeat a call after a period boundary
        stut = []
        for h in hs:
            if any(st["act"] == "accept" for st in h) and any(st["act"] == "tick" for st in h):
                g = []
                for st in h:
                    g.append(st)
                    if st["act"] == "accept":
                        g += [dict(st), dict(st)]
                    elif st["act"] == "resolve":
                        g.append(dict(st))
                stut.append(g)
        if len(stut) > len(hs):
            stut = ctx.rng.sample(stut, len(hs))
        hs = hs + stut
        ctx.extra.setdefault("histories", {})[a.name] = len(hs)
        ctx.extra.setdefault("stuttered_histories", {})[a.name] = len(stut)
        for off, cap in zip(a.offsets, per_off):
            sel = hs if cap is None or len(hs) <= cap else ctx.rng.sample(hs, cap)
            gid = len(groups)
            ids = []
            for h in sel:
                scripts.append({"id": len(scripts), "cfg": a.cfg(gid, off), "steps": h})
                ids.append(scripts[-1]["id"])
            groups.append((gid, a, off, ids))

    # ---- 3. replay under the virtual clock (+ pure functions in the same driver run)
    npure = 3000 if quick else 40000
    events, _ = vf.run_driver(ctx, PKG, DRV, ov_virtual, scripts, "virtual", timeout=1500, env={"VERIF_PURE_N": npure})
    blocks = dict(vf.split_traces(events))
    if any(s["id"] not in blocks for s in scripts) or any((-1 - g[0]) not in blocks for g in groups) or PURE_ID not in blocks:
        raise vf.Infra("driver did not record every script")
    byid = {s["id"]: s for s in scripts}
    impl_hint = [None]
    # one TLC run per abstract configuration (quick) or per (configuration, offset) group (thorough:
    # large traces are validated side by side)
    by_abs = {}
    for gid, a, off, ids in groups:
        key = a.name if quick else "%s_g%d" % (a.name, gid)
        by_abs.setdefault(key, (a, []))[1].append(((-1 - gid, blocks[-1 - gid]), [(i, blocks[i]) for i in ids]))
    vjobs = [lambda a=a, gl=gl, key=key: _validate_abs(ctx, a, gl, impl_hint, key) for key, (a, gl) in by_abs.items()]
    pure_ev = [{"ev": "reset", "id": PURE_ID}] + blocks[PURE_ID]
    # real-time twins and the pure-function trace are handled while TLC validates the replays
    with ThreadPoolExecutor(max_workers=3) as side:
        rt = side.submit(lambda: _realtime(ctx, ov_real, scripts, blocks, 16 if quick else 32))
        mm = side.submit(lambda: (_marshaler(ctx, ov_mm, scripts, 350 if quick else 4000), _store_layer(ctx, ov_store)))
        pu = side.submit(lambda: _pure_validate(ctx, pure_ev))
        # the first configuration alone fixes the matching predicate, the others then try it first
        results = [vjobs[0]()] + _par(vjobs[1:])
        pu.result()
        mm.result()
        rt_err = None
        try:
            rt.result()
        except vf.Infra as e:
            rt_err = e
    impls = set()
    gof = {-1 - gid: (a, off, gid) for gid, a, off, ids in groups}
    for (a, gl), (acc, rejects, impl_ok) in zip(by_abs.values(), results):
        if impl_ok:
            impls.add(impl_ok)
        for rj in rejects:
            line = rj["info"].get("line", {})
            if rj["id"] < 0:
                ga, off, gid = gof[rj["id"]]
                what = "digest / period rounding breaks C17: %s" % json.dumps(line, sort_keys=True)[:300]
                ctx.violation(what, {"universe": ga.cfg(gid, off), "rejected_line": line})
                continue
            sc = byid[rj["id"]]
            what = "real RotationInterval breaks C17 at step %s (interval %ss): %s" % (
                rj["at"], a.I * a.u, json.dumps({k: v for k, v in line.items() if k != "st"}, sort_keys=True)[:400])
            ctx.violation(what, {"script": sc, "observed": rj["events"], "rejected_line": line, "step": rj["at"]})
    ctx.extra["expiry_predicate_matching_tree"] = sorted(impls)
    ctx.evaluations += len(scripts)
    ctx.distinct_nontrivial += sum(1 for s in scripts if _nontrivial(s["steps"]))
    for s in scripts:
        if _nontrivial(s["steps"]) and any(st["act"] == "accept" for st in s["steps"]):
            ctx.add_samples([{"cfg": {k: s["cfg"][k] for k in ("I", "u", "off_s", "off_ns")}, "script": s["steps"],
                              "observed": [{k: v for k, v in e.items() if k != "st"} for e in blocks[s["id"]]]}], limit=2)
            if len(ctx.samples) >= 2:
                break
    if rt_err and not ctx.violations:
        raise rt_err
    return _finish(ctx)


PURE_ID = -1000000


def _pure_validate(ctx, ev):
    acc, rejects = vf.validate_blocks(ctx, MON, ev, "pure", timeout=1500)
    np_ = sum(1 for e in ev if e.get("ev") == "pure")
    ctx.evaluations += np_
    ctx.extra["pure_inputs"] = np_
    ctx.extra["pure_same_period_pairs"] = sum(1 for e in ev if e.get("ev") == "pure" and e["r1"] == e["r2"])
    for rj in rejects:
        line = rj["info"].get("line", {})
        ctx.violation("pure rendezvous function breaks C17: %s" % json.dumps(line, sort_keys=True)[:300],
                      {"pure": line.get("i"), "rejected_line": line})


def _pure(ctx, ov, n):
    d = ctx.sub("drv_pure")
    tp = os.path.join(d, "trace.ndjson")
    rc, out = ctx.go_test(PKG, DRV_PURE, ov, env={"VERIF_TRACE_OUT": tp, "VERIF_PURE_N": n}, timeout=900, name="pure")
    if "VERIF-INFRA" in out or rc != 0 or not os.path.exists(tp):
        raise vf.Infra("pure-function driver failed:\n" + "\n".join(out.splitlines()[-30:]))
    _pure_validate(ctx, vf.read_ndjson(tp))


DRV_MM = "^TestVerifMarshalerReplay$"
DRV_STORE = "^TestVerifRdvStore$"


def _store_overlay(ctx, rep):
    """overlay for the store-layer part (built before any thread starts): rewritten pkg/rendezvous + orbitdb.go
    reading the virtual clock in storeForGroup; None if the clock read is not where it used to be"""
    src = open(os.path.join(vf.REPO, "orbitdb.go")).read()
    new, n = re.subn(r"RegisterRotation\(time\.Now\(\),", "RegisterRotation(rendezvous.VfClockNow(),", src)
    if n == 0:
        ctx.drift.append({"trace": "rdvstore", "info": "orbitdb.go: no RegisterRotation(time.Now(), ...) found; store-layer part skipped"})
        return None
    d = ctx.sub("rdvstore_src")
    dst = os.path.join(d, "orbitdb.go")
    open(dst, "w").write(new)
    rep2 = dict(rep)
    rep2["orbitdb.go"] = dst
    return _overlay(ctx, "rdvstore", {".": ["vf_rdvstore_verif_test.go", "vf_replica_verif_test.go"], PKG: [SHIM]}, replace=rep2)


def _store_layer(ctx, ov):
    """C17 where the topics are registered by WeshOrbitDB.storeForGroup (orbitdb.go): two orbit-db instances open the
    same group at scripted instants of the virtual clock; MonRdvStore.tla judges what each resolves and accepts."""
    if ov is None:
        return
    quick = ctx.tier == "quick"
    scripts = []

    def S(isec, off, steps):
        scripts.append({"id": len(scripts), "cfg": {"isec": isec, "off": off},
                        "steps": [{"act": a, "d": d, "x": x} for (a, d, x) in steps]})
    for isec in ([3600] if quick else [3600, 600, 86400]):
        for off in ([0, isec - 1] if quick else [0, 1, isec // 2, isec - 1]):
            # both open in the same period; one / two boundaries pass; late opener; idle periods; reopen by a third instance
            S(isec, off, [("open", "p1", 0), ("open", "p2", 0), ("tick", "-", isec), ("tick", "-", isec)])
            S(isec, off, [("open", "p1", 0), ("tick", "-", isec), ("open", "p2", 0), ("tick", "-", 1), ("tick", "-", isec)])
            S(isec, off, [("open", "p1", 0), ("tick", "-", 3 * isec), ("open", "p2", 0), ("tick", "-", isec - 1), ("tick", "-", 2)])
            if not quick:
                S(isec, off, [("open", "p1", 0), ("tick", "-", isec // 2), ("open", "p2", 0), ("tick", "-", isec // 2), ("open", "p3", 0), ("tick", "-", 2 * isec)])
    events, _ = vf.run_driver(ctx, ".", DRV_STORE, ov, scripts, "rdvstore", timeout=1500)
    acc, rejects = vf.validate_blocks(ctx, ("MonRdvStore", "Mon_RdvStore.cfg"), events, "rdvstore")
    n = sum(1 for e in events if e.get("ev") in ("sresolve", "sexchange"))
    ctx.evaluations += n
    ctx.distinct_nontrivial += len(scripts)
    ctx.extra["store_layer"] = {"scripts": len(scripts), "observations": n}
    for rj in rejects:
        line = rj["info"].get("line", {})
        sc = scripts[rj["id"]]
        ctx.violation("store layer breaks C17 (interval %ss, start %ss into the period, history %s): %s" % (
            sc["cfg"]["isec"], sc["cfg"]["off"], " ; ".join("%s %s %s" % (x["act"], x["d"], x["x"]) for x in sc["steps"]),
            json.dumps(line, sort_keys=True)[:300]), {"script": sc, "rejected_line": line, "family": "rdvstore"})


def _marshaler(ctx, ov, scripts, n):
    """a sample of the same histories through two OrbitDBMessageMarshalers (root package, in-package
    driver, same virtual clock): resolve = Marshal, accept = Unmarshal"""
    bygid = {}
    for s in scripts:
        bygid.setdefault(s["cfg"]["gid"], []).append(s)
    pick = []
    per = max(1, n // max(1, len(bygid)))
    for gid in sorted(bygid):
        cand = [s for s in bygid[gid] if _nontrivial(s["steps"])] or bygid[gid]
        pick.extend(cand if len(cand) <= per else ctx.rng.sample(cand, per))
    pick.sort(key=lambda s: s["id"])
    events, _ = vf.run_driver(ctx, ".", DRV_MM, ov, pick, "marshaler", timeout=2400)
    blocks = dict(vf.split_traces(events))
    if any(s["id"] not in blocks for s in pick):
        raise vf.Infra("marshaler driver did not record every script")
    groups = []
    for gid in sorted(bygid):
        ids = [s["id"] for s in pick if s["cfg"]["gid"] == gid]
        if ids:
            groups.append(((-1 - gid, blocks[-1 - gid]), [(i, blocks[i]) for i in ids]))
    acc, rejects = _validate_groups(ctx, groups, "marshaler")
    ctx.evaluations += len(pick)
    ctx.extra["marshaler_runs"] = {"histories": len(pick), "accepted": acc,
                                   "unmarshal_of_real_payloads": sum(1 for b in blocks.values() for e in b if e.get("ev") == "accept" and e.get("real"))}
    byid = {s["id"]: s for s in pick}
    for rj in rejects:
        line = rj["info"].get("line", {})
        if rj["id"] < 0:
            continue        # digest table: reported by the pkg/rendezvous part
        ctx.violation("OrbitDBMessageMarshaler breaks C17 at step %s: %s" % (rj["at"], json.dumps(line, sort_keys=True)[:400]),
                      {"script": byid[rj["id"]], "marshaler": True, "observed": rj["events"], "rejected_line": line, "step": rj["at"]})


def _realtime(ctx, ov_real, scripts, blocks, n):
    """a handful of histories against the UNMODIFIED package in real time (1 s ticks, actions
    at +500 ms); each must look like its virtual-clock twin.  A disagreement is re-run once and
    then reported as an infrastructure problem of the clock substitution, never as a violation."""
    cand = [s for s in scripts if s["cfg"]["u"] == 1 and s["cfg"]["off_ns"] == 500000000 and _nontrivial(s["steps"])
            and sum(st["x"] for st in s["steps"] if st["act"] == "tick") <= 4]
    if not cand:
        raise vf.Infra("no history suitable for the real-time runs")
    cand.sort(key=lambda s: (-sum(1 for st in s["steps"] if st["act"] in ("resolve", "accept")), s["id"]))
    pick = cand[:n // 2] + ctx.rng.sample(cand[n // 2:], min(n - n // 2, len(cand) - n // 2))
    rts = []
    for s in pick:
        c = dict(s["cfg"], realtime=True)
        rts.append({"id": s["id"], "cfg": c, "steps": s["steps"]})
    todo, attempts, agree = rts, 0, 0
    while todo and attempts < 2:
        attempts += 1
        events, _ = vf.run_driver(ctx, PKG, DRV_RT, ov_real, todo, "realtime%d" % attempts, timeout=300)
        again = []
        for bid, evs in vf.split_traces(events):
            late = any(e.get("ev") == "rt" and e.get("late") for e in evs)
            if late or _abstract_outcomes(evs) != _abstract_outcomes(blocks[bid]):
                again.append([s for s in todo if s["id"] == bid][0])
            else:
                agree += 1
        todo = again
    ctx.extra["realtime_runs"] = {"histories": len(rts), "agree_with_virtual_twin": agree, "attempts": attempts}
    if todo:
        # never a verdict and - on a loaded machine - not an infrastructure failure either: sleeps overshoot and a
        # real-time run then crosses a period boundary its virtual twin did not.  Recorded as drift.
        ctx.extra["realtime_runs"]["disagreeing_twice"] = [s["id"] for s in todo]
        ctx.drift.append({"realtime": "real-time run of %d histories disagrees with the virtual-clock twin twice "
                                      "(machine timing or clock substitution); verdicts come from the virtual-clock runs" % len(todo)})
        vf.log("real-time cross-check inconclusive for", len(todo), "histories (recorded as drift)")


def _replay(ctx, rp, ov, ov_mm):
    if "pure" in rp or "universe" in rp:
        _pure(ctx, ov, 3000)
        if "universe" in rp:
            sc = {"id": 0, "cfg": rp["universe"], "steps": []}
            events, _ = vf.run_driver(ctx, PKG, DRV, ov, [sc], "virtual")
            acc, rejects = vf.validate_blocks(ctx, MON, events, "replay", timeout=600)
            for rj in rejects:
                ctx.violation("digest / period rounding breaks C17", {"universe": rp["universe"], "rejected_line": rj["info"].get("line")})
        return _finish(ctx)
    sc = rp["script"]
    if rp.get("marshaler"):
        _marshaler(ctx, ov_mm, [sc], 1)
        return _finish(ctx)
    events, _ = vf.run_driver(ctx, PKG, DRV, ov, [sc], "virtual")
    acc, rejects = vf.validate_blocks(ctx, MON, events, "replay", timeout=600)
    ctx.evaluations += 1
    for rj in rejects:
        line = rj["info"].get("line", {})
        ctx.violation("real RotationInterval breaks C17 at step %s: %s" % (
            rj["at"], json.dumps({k: v for k, v in line.items() if k != "st"}, sort_keys=True)[:400]),
            {"script": sc, "observed": rj["events"], "rejected_line": line, "step": rj["at"]})
    return _finish(ctx)


def _finish(ctx):
    ctx.assumptions += [
        "the package runs under a virtual clock: time.Now/Until/Since/AfterFunc of the rotation sources are rewritten at check time to a shim (timers run as soon as they are due); validated against the unmodified package in real time on a handful of histories",
        "a peer registers one seed per topic (the seed is derived from the group of the topic)",
        "grace period promised = RotationGracePeriod (10 min) from the start of the period rotated into; the code keeps the old value longer (24 h after the new deadline), which the monitor leaves open",
        "rotation values are read through the table of digests produced by the real GenerateRendezvousPointForPeriod, checked deterministic and injective on the triples used; topic/seed pairs whose concatenations coincide are not generated",
        "instants >= 1970 (Unix seconds >= 0), intervals of whole seconds >= 1 s"]
    return ctx.finish(level="model_checking",
                      rule="histories = every sequence of MaxLen calls (register/resolve/accept/tick, two peers, one or two topics, two seeds, accept of every value returned so far and of current-period digests of any topic/seed incl. an unregistered topic) TLC enumerates under both expiry predicates, plus -simulate walks, each replayed at several sub-tick offsets (exactly on a period boundary, 1 ns after, just inside / outside the 10 min grace); non-trivial = registration, then time passes, then a resolve/accept",
                      exhaustive=False,
                      technique="TLA+ spec Rendezvous.tla model-checked by TLC; TLC-generated histories replayed on real RotationIntervals under a virtual clock (sources rewritten through the build overlay); recorded calls checked by TLC against the property monitor MonRendezvous.tla (verdict) and against the full spec TraceRendezvous.tla incl. cache contents and pending timers (conformance/drift); real-time twin runs on the unmodified package; pure functions on seeded random inputs")
