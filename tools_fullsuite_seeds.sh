#!/bin/bash
# usage: tools_fullsuite_seeds.sh [seed dir ...]   (default: every seed)
# For each seeded change: scratch worktree of /repo HEAD, apply patch.diff, run the repository's
# whole test suite (as /root/.vp/BASELINE.json does) and record which of the pinned stable tests
# did not pass -> seeded/<id>/fullsuite.txt
export GOFLAGS=-mod=mod GOPROXY=off
seeds="$@"; [ -z "$seeds" ] && seeds=$(ls -d /verif/seeded/*/)
for sd in $seeds; do
  sd=${sd%/}; wt=/tmp/wt_full_$$
  git -C /repo worktree add -q --detach $wt HEAD || exit 3
  ( cd $wt && git apply $sd/patch.diff && timeout 3000 go test -p 6 -json -vet=off -count=1 -timeout 25m ./... > /tmp/full_$$.json 2>/tmp/full_$$.err )
  python3 - "$sd" /tmp/full_$$.json <<'PY'
import json,sys
sd,path=sys.argv[1],sys.argv[2]
stable=set(json.load(open('/root/.vp/BASELINE.json'))['stable_pass'])
res={}
for line in open(path,errors='replace'):
    try: e=json.loads(line)
    except Exception: continue
    if e.get('Test') and e.get('Action') in ('pass','fail','skip'):
        res[e['Package']+'::'+e['Test']]=e['Action']
bad=sorted(t for t in stable if res.get(t)!='pass')
with open(sd+'/fullsuite.txt','w') as f:
    f.write("whole suite with the patch applied (go test -vet=off -count=1 ./...): %d of %d pinned stable tests pass\n"%(len(stable)-len(bad),len(stable)))
    for t in bad: f.write("  not passing: %s (%s)\n"%(t,res.get(t,'not run')))
print(sd, len(stable)-len(bad), len(stable))
PY
  git -C /repo worktree remove --force $wt; rm -f /tmp/full_$$.json /tmp/full_$$.err
done
